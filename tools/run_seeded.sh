#!/bin/bash
# Runs every kept seeded change (seeded/<name>/patch.diff, meta.json) against the matching check in a scratch worktree
# and regenerates seeded/RESULTS.md.   TIER=quick|thorough   JOBS=<parallel jobs>   ONLY=<name-glob>
HERE="$(cd "$(dirname "${BASH_SOURCE[0]}")/.." && pwd)"; cd "$HERE" || exit 2
TIER="${TIER:-quick}"; JOBS="${JOBS:-3}"; ONLY="${ONLY:-*}"
mkdir -p .cache/seeded
one() {
  d="$1"; name="$(basename "$d")"
  pid="$(python3 -c "import json;print(json.load(open('$d/meta.json'))['property'])")"
  wt="/tmp/seedrun_${name}_$$"
  git -C /repo worktree add -q --detach "$wt" HEAD 2>/dev/null || { echo "$name|$pid|worktree failed|"; return; }
  if ! git -C "$wt" apply "$HERE/$d/patch.diff" 2>/dev/null; then echo "$name|$pid|PATCH DOES NOT APPLY|"; git -C /repo worktree remove --force "$wt"; return; fi
  out="$(REPO_DIR="$wt" VERIF_WORKERS="${WORKERS:-6}" ./run_seeded_inner "$pid" "$TIER" "$name" 2>&1)"
  git -C /repo worktree remove --force "$wt" >/dev/null 2>&1
  echo "$out"
}
export -f one; export TIER HERE SEED
cat > run_seeded_inner <<'EOS'
#!/bin/bash
pid="$1"; tier="$2"; name="$3"
# evidence/replay of the real tree must not be overwritten: run in a private copy of the output dirs
tmp="$(mktemp -d)"; cp -r vf tools run known_findings.json "$tmp"/ 2>/dev/null; mkdir -p "$tmp/evidence" "$tmp/replay" "$tmp/.cache"
ln -s "$PWD/.deps" "$tmp/.deps" 2>/dev/null
( cd "$tmp" && REPO_DIR="$REPO_DIR" ./run "$pid" --tier "$tier" --seed "${SEED:-1}" > log.txt 2>&1; echo $? > code )
code="$(cat "$tmp/code")"
clauses="$(grep -o 'clause=[^ ]*' "$tmp/log.txt" | sort -u | head -4 | tr '\n' ' ')"
wall="$(grep -o 'wall=[0-9.]*s' "$tmp/log.txt" | tail -1)"
echo "$name|$pid|exit $code|$clauses|$wall"
rm -rf "$tmp"
EOS
chmod +x run_seeded_inner
ls -d seeded/$ONLY/ 2>/dev/null | sed 's#/$##' | xargs -P "$JOBS" -I{} bash -c 'one {}' | sort > .cache/seeded/results_$TIER.txt
rm -f run_seeded_inner
python3 - "$TIER" <<'EOP'
import sys, json, os, re
tier = sys.argv[1]
# rows of this run, merged over the rows already in seeded/RESULTS.md (ONLY=<glob> re-runs a subset)
rows = {}
if os.path.exists('seeded/RESULTS.md'):
    for l in open('seeded/RESULTS.md'):
        m = re.match(r'\| (C\d\d-\d+) \| (C\d\d) \| ([^|]*) \| ([^|]*) \|', l)
        if m and os.path.isdir(os.path.join('seeded', m.group(1))):
            out = m.group(3).strip()
            rows[m.group(1)] = [m.group(1), m.group(2), 'exit 1' if out == 'DETECTED' else out, m.group(4).strip()]
for l in open('.cache/seeded/results_%s.txt' % tier):
    if l.strip():
        r = l.rstrip('\n').split('|')
        r = r + [''] * (5 - len(r))
        rows[r[0]] = [r[0], r[1], r[2], r[3].replace('clause=', '').strip()]
rows = [rows[k] for k in sorted(rows)]
det = sum(1 for r in rows if r[2] == 'exit 1')
with open('seeded/RESULTS.md', 'w') as f:
    f.write('# Seeded changes vs. the %s tier\n\n%d of %d kept changes detected (exit 1 + VIOLATION line).\n\n' % (tier, det, len(rows)))
    f.write('| change | property | outcome | failing clauses | what it needs to manifest |\n|---|---|---|---|---|\n')
    for r in rows:
        try:
            meta = json.load(open(os.path.join('seeded', r[0], 'meta.json')))
        except Exception:
            meta = {}
        f.write('| %s | %s | %s | %s | %s |\n' % (r[0], r[1], 'DETECTED' if r[2] == 'exit 1' else r[2], r[3],
                                              str(meta.get('needs', ''))[:160].replace('|', '/')))
print(open('seeded/RESULTS.md').read()[:600])
for r in rows:
    if r[2] != 'exit 1':
        print('NOT DETECTED:', r)
EOP
