#!/usr/bin/env python3
"""Writes known_findings.json (committed; never written by the checks at run time)."""
import json, os, sys
HERE = os.path.dirname(os.path.dirname(os.path.abspath(__file__)))
sys.path.insert(0, HERE)

from vf.gen.simple import AIR, MIRROR, glass, surf, spec  # noqa

F = []


def add(**e):
    F.append(e)


add(property='C01', id='C01-numpy-float', status='fixed', commit='2d7a94d', clause='no_exception',
    what='fixed: property=C01 2d7a94d add_surface(index>=2) and image_solve raised TypeError (float() of a '
         '1-element array under numpy 2.5)', reproducer=None)
add(property='C18', id='C18-regex-names', status='fixed', commit='41c6b34', clause='exact_name_found',
    what="fixed: property=C18 41c6b34 exact catalogue names containing regex metacharacters, e.g. "
         "'N-BK7 (SCHOTT)', raised 'No matches found'",
    reproducer={'kind': 'name', 'row': 528, 'with_ref': False})
add(property='C18', id='C18-category-shadow', status='open', clause='exact_name_returns_that_name',
    what="exact names that equal another row's category (SF5, SF6, SF10, SF11, BAF10, BAF2, Cellulose, NAS-21, "
         "Optorez1330, ZeonexE48R; 15 rows) return that other row, e.g. Material('SF11') is N-SF11 (SCHOTT); a repair "
         "changes the value pinned by tests/test_optimization.py::test_fun_array, so it is recorded, not repaired",
    region='query name equals (case-insensitively) the category_name of the returned row',
    weakened_relation="returned row's category_name == query (any other returned row is still a violation)",
    reproducer={'kind': 'name', 'row': 703, 'with_ref': False})

neg_singlet = spec([surf(R=-50.0, t=4.0, mat=glass(1.5), stop=True), surf(R=80.0, t=30.0)])
add(property='C04', id='C04-chief-object-height', status='fixed', commit='15c99e7', clause='chief_y',
    what='fixed: property=C04 15c99e7 chief_ray() for finite object + object-height fields was scaled by the ray '
         'height on surface 1 and launched from -y',
    reproducer={'kind': 'spec', 'spec': spec([surf(R=40.0, t=5.0, mat=glass(1.6)), surf(R=-60.0, t=12.0, stop=True),
                                             surf(R='inf', t=60.0)], t_obj=120.0, ftype='object_height',
                                            fields=(0.0, 8.0), ap=('EPD', 8.0))})
add(property='C04', id='C04-f2-abs', status='open', clause='f2',
    what="f2() returns |n'/phi| (np.abs), so P2(), N1() and FNO() are wrong whenever the rear focal length n'/phi is "
         "negative (negative lenses; odd number of mirrors), e.g. singlet R=-50/+80 n=1.5: f2()=+60.2, P2()=-121.4 "
         "instead of -60.2 / -1.0; sign convention for mirror systems is a maintainer decision, so recorded",
    region="reference rear focal length n'/phi < 0",
    weakened_relation="f2 == |f2_ref|, P2 == F2_ref - |f2_ref|, N1 == P1_ref + f1_ref + |f2_ref|, FNO == |f2_ref|/EPD",
    reproducer={'kind': 'spec', 'spec': neg_singlet})
add(property='C04', id='C04-magnification-sign', status='open', clause='magnification',
    what='magnification() uses unsigned indices: wrong sign when the number of mirrors is odd (concave mirror, '
         'finite object: reports +m for an inverted real image convention n u/(n\' u\'))',
    region='odd number of mirrors', weakened_relation='|m| == |m_ref|',
    reproducer={'kind': 'spec', 'spec': spec([surf(R=-100.0, t=-80.0, mat=MIRROR, stop=True)], t_obj=200.0,
                                            ap=('EPD', 10.0))})
add(property='C04', id='C04-invariant-sign', status='open', clause='invariant',
    what='invariant() uses the unsigned index after surface 1: wrong sign when surface 1 is a mirror',
    region='surface 1 is a mirror', weakened_relation='|H| == |H_ref|; the per-surface invariant formed from the '
                                                        'returned rays with signed indices is still required constant',
    reproducer={'kind': 'spec', 'spec': spec([surf(R=-100.0, t=-40.0, mat=MIRROR, stop=True)], ap=('EPD', 10.0))})

cheb = surf(type='chebyshev', R=60.0, t=5.0, mat=glass(1.5), stop=True, coef=[[0.0, 0.02], [0.01, 0.0]], norm=20.0)
add(property='C02', id='C02-missing-k', status='fixed', commit='0752c0c', clause='no_exception',
    what='fixed: property=C02 0752c0c tracing through a catalogue material without extinction data raised ValueError '
         '(bundled TelescopeObjective48Inch could not be traced)',
    reproducer={'kind': 'sample', 'name': 'objectives.TelescopeObjective48Inch'})
add(property='C02', id='C02-chebyshev-normal', status='open', clause='snell_law',
    what='ChebyshevPolynomialGeometry._surface_normal omits the chain-rule factor 1/norm_x, 1/norm_y: for norm != 1 the '
         'normal is not the gradient of the prescribed sag and refracted/reflected directions violate Snell\'s law '
         '(error ~ c_ij (1 - 1/norm)); tests/test_geometries.py::TestChebyshevGeometry::test_surface_normal pins the '
         'wrong normal, so it is recorded, not repaired',
    region='Chebyshev surface with norm_x/norm_y != 1',
    weakened_relation='Snell / reflection law hold with the gradient whose Chebyshev terms lack the 1/norm factor',
    reproducer={'kind': 'spec', 'spec': spec([cheb, surf(R=-80.0, t=40.0)], ap=('EPD', 8.0), fields=(0.0, 3.0)),
                'rays': [[0.0, 0.0, 0.0], [0.5, 0.3, 0.4], [1.0, -0.5, 0.5], [0.0, 0.0, 1.0]], 'wl': 0})

add(property='C02', id='C02-backward-launch', status='fixed', commit='7f84765', clause='on_surface',
    what='fixed: property=C02 7f84765 rays were launched towards -z when the entrance pupil lies in front of the launch '
         'plane (virtual pupil), giving finite records that are not on the surfaces',
    reproducer={'kind': 'spec', 'spec': spec([surf(R=50.0, t=6.0, mat=glass(1.5)), surf(R=-50.0, t=80.0),
                                             surf(R='inf', t=30.0, stop=True)], ap=('EPD', 6.0), fields=(0.0, 2.0)),
                'rays': [[0.0, 0.0, 0.0], [0.5, 0.3, 0.4], [1.0, -0.5, 0.5], [0.0, 0.0, 1.0]], 'wl': 0})

add(property='C02', id='C02-far-sheet', status='fixed', commit='af57352', clause='on_surface',
    what='fixed: property=C02 af57352 a ray whose only forward root is on the far sheet of the conic (beyond the equator) '
         'was reported finite, off the sag surface and with a wrong-signed normal',
    reproducer={'kind': 'spec', 'spec': spec([surf(R=1.1875, t=-0.14621044856056414, mat=MIRROR, stop=True),
                                             surf(R=2.186198843866468, t=0.546549710966617, mat=MIRROR)], t_obj=7.0,
                                            ap=('EPD', 2.0), fields=(0.0,)),
                'rays': [[0.0, 0.0, 0.0], [0.0, 1.0, 0.0], [0.0, 0.0, 1.0], [0.0, 0.7, 0.7]], 'wl': 0})

add(property='C02', id='C02-nr-nonconvergence', status='fixed', commit='e33a24d', clause='on_surface',
    what='fixed: property=C02 e33a24d rays whose Newton-Raphson surface iteration did not converge within max_iter were '
         'returned as finite points off the surface (even asphere R=10 tilted 0.9 rad, ray at y=-6.3: 0.09 mm off)',
    reproducer={'kind': 'spec', 'spec': spec([surf(type='even_asphere', R=10.0, t=3.0, mat=glass(1.5), stop=True,
                                                  coef=[0.0, 1e-5], rx=0.9), surf(R='inf', t=20.0)],
                                            ap=('EPD', 14.0), fields=(0.0,)),
                'rays': [[0.0, 0.0, 0.0], [0.0, 0.0, 0.5], [0.0, 0.0, -0.8], [0.0, 0.0, -0.9], [0.0, 0.0, 0.9]], 'wl': 0})

add(property='C02', id='C02-nr-behind', status='fixed', commit='5bdc6b3', clause='on_surface',
    what='fixed: property=C02 5bdc6b3 iterative surfaces advanced a ray forwards by |t| when the converged intersection '
         'lies behind the ray origin (tilted plane poking through the following asphere): finite point 2.7e-3 off the surface',
    reproducer={'kind': 'spec', 'spec': spec([surf(R='inf', t=0.05, mat=glass(1.5), stop=True, rx=0.09375),
                                             surf(type='even_asphere', R=18.01047303895693, t=0.5, coef=[])],
                                            ap=('EPD', 2.0), fields=(0.0,)),
                'rays': [[0.0, 0.0, 0.0], [0.0, 0.5403023058681398, 0.8414709848078965], [0.0, 0.0, 1.0]], 'wl': 0})

add(property='C03', id='C03-backward-launch', status='fixed', commit='7f84765', clause='forward_direction',
    what='fixed: property=C03 7f84765 rays were launched towards -z when the entrance pupil lies in front of the launch '
         'plane (stop beyond the rear focal point)',
    reproducer={'kind': 'launch', 'spec': spec([surf(R=50.0, t=6.0, mat=glass(1.5)), surf(R=-50.0, t=80.0),
                                               surf(R='inf', t=30.0, stop=True)], ap=('EPD', 6.0), fields=(0.0, 2.0)),
                'rays': [[0.0, 0.0, 0.0], [0.5, 0.3, 0.4], [1.0, -0.5, 0.5], [1.0, 0.0, 1.0]], 'wl': 0})

add(property='C05', id='C05-parabola-cancellation', status='open', clause='chief_y_quadratic',
    what='StandardGeometry.distance solves the conic quadratic as (-b +- sqrt(b^2-4ac))/(2a); for |1+k| << 1 and '
         'near-axial rays a -> 0 and the root suffers catastrophic cancellation: ray heights on a paraboloid (k=-1) are '
         'wrong by ~1e-10 mm at field fraction 1e-4 and the error grows like 1/eps^2, so real rays do not converge '
         'quadratically to the paraxial ray; the stable-root repair changes the value pinned by '
         'tests/test_operand.py::TestRayOperand::test_opd_diff_on_axis (which pins this noise for the Hubble sample), '
         'so it is recorded, not repaired',
    region='lens contains a standard conic surface with |1+k| < 0.05',
    weakened_relation='|delta(eps)| <= 4 K eps^2 + floor + 1e-12 max(L,|R|max)/eps^2 + 10 |slope| sum_k 1e-15 |R_k| / |L^2+M^2+(1+k)N^2| '
                      '(the loss of the root for the direction with which the ray reaches each near-parabolic surface k)',
    reproducer={'spec': spec([surf(R=12.0, t=3.455728090000841, mat=glass(1.5214), stop=True), surf(R='inf', t=0.36),
                              surf(R=10.585374853750517, k=-1.0, t=3.5284582845835057, mat=glass(1.5214))],
                             ap=('EPD', 16.0), fields=(0.0, 1.0), img=glass(1.5214))})

add(property='C12', id='C12-parabola-cancellation', status='open', clause='field_curvature_is_coddington_focus',
    what='same root cause as C05-parabola-cancellation (cancellation in the conic root for |1+k| << 1 and near-axial '
         'rays): FieldCurvature intersects parabasal rays launched at pupil +-1e-5, whose heights on a paraboloid carry '
         'that noise, so the reported tangential/sagittal foci are wrong, e.g. singlet R=50/-60 (k=-1), n=1.6, EPD 2: '
         'on-axis focus 4.5245 instead of 4.5087 from the image surface; the repair changes a value pinned by '
         'tests/test_operand.py::TestRayOperand::test_opd_diff_on_axis, so it is recorded, not repaired',
    region='field-curvature analysis of a lens that contains a standard conic surface with |1+k| < 0.05',
    weakened_relation='inside the region the two focus clauses (Coddington, plane-image twin) are not judged; the '
                      'analysis must still run and every other analysis of such lenses is judged at full strength',
    reproducer={'spec': spec([surf(R=50.0, t=5.0, mat=glass(1.6), stop=True), surf(R=-60.0, k=-1.0, t=40.0)],
                             ap=('EPD', 2.0), fields=(0.0, 5.0)),
                'analysis': 'field_curvature', 'fields': 'all', 'wls': 'all', 'n': 0, 'h': 0.0, 'px': 0.0, 'py': 0.0})

add(property='C11', id='C11-inverted-pupil-fno', status='open', clause='mtf_cutoff_value',
    what='FFTMTF._get_fno (and FFTPSF._get_psf_units) form the working F-number of a finite-conjugate lens as '
         'F (1 + |m| / p) with p = XPD / EPD signed: when the exit pupil is inverted (paraxial XPD < 0, e.g. entrance pupil '
         'behind the object) the result is wrong and can be negative, e.g. object at 5 mm, four surfaces, stop last: '
         'cut-off -221.06 cycles/mm instead of +221.06 = 1 / (lambda / (2 n\' |u\'|)); the signed form F |1 - m / p| '
         'is right there but changes the value pinned by tests/test_psf.py::test_get_units_finite_obj (a lens with '
         'its object placed at z = +1e6), so it is recorded, not repaired',
    region='finite object, image in air, reference pupil magnification XPD/EPD < 0',
    weakened_relation="max_freq == 1 / (lambda F (1 + |m| / p)) with the reference's F, m and signed p",
    reproducer={'spec': spec([surf(R='inf', t=0.1, mat=glass(2.0)), surf(R=-4.548927389608848, t=3.83355563378719),
                              surf(R=14.688321690140878, t=4.531844585692018, mat=glass(1.3)),
                              surf(R=-8.150272603165785, t=11.223691945664376, stop=True)],
                             t_obj=5.0, ap=('EPD', 2.0), fields=(0.0,), wls=(0.5,)),
                'G': 64, 'N': 16, 'clip': False, 'defocus': 0.0, 'fld': 0, 'ideal': False, 'mtf': True})

_par = spec([surf(R='inf', t=-0.1, mat=MIRROR, ry=1.8e-6, stop=True, hd=1.0), surf(R=1.82, k=-1.0, t=0.6, mat=MIRROR, hd=1.0)],
            ap=('EPD', 2.0), fields=(0.0,), wls=(0.5,))
add(property='C02', id='C02-parabola-cancellation', status='open', clause='on_surface',
    what='same root cause as C05-parabola-cancellation: StandardGeometry.distance solves the conic quadratic as '
         '(-b - sqrt(b^2-4ac))/(2a); on a paraboloid (|1+k| << 1) reached by an almost axial ray a = c (L^2+M^2+(1+k)N^2) '
         '-> 0 and the root cancels: the recorded intersection point lies off the surface, e.g. paraboloid mirror R=1.82 '
         'reached by rays with L = 3.6e-6: 6e-6 mm off the surface (tolerance 2e-9); the stable-root repair changes the '
         'value pinned by tests/test_operand.py::TestRayOperand::test_opd_diff_on_axis, so it is recorded, not repaired',
    region='standard conic surface with |1+k| < 0.05 reached by a ray with 0 < |L^2+M^2+(1+k)N^2| < 1e-4',
    weakened_relation='the clauses of that surface allow a displacement of 1e-15 / |c (L^2+M^2+(1+k)N^2)| along the ray '
                      '(on_surface, optical_path, and |c| times it in the refraction / reflection law)',
    reproducer={'kind': 'spec', 'spec': _par, 'rays': [[0.0, 0.0, 0.0], [0.0, 0.1, 0.0]], 'wl': 0})

add(property='C02', id='C02-axial-parabola-backward', status='fixed', commit='45f9b63', clause='segment_follows_direction',
    what='fixed: property=C02 45f9b63 a paraboloid (k=-1) met by a ray exactly parallel to its axis takes the a == 0 '
         'branch t = -c/b of the conic intersection, which had no t < 0 test: a paraboloid lying entirely behind the ray '
         'was reached by propagating backwards (segment -0.235 mm) instead of the ray being reported as missing',
    reproducer={'kind': 'spec', 'spec': spec([surf(R='inf', t=-0.05, mat=MIRROR, stop=True, hd=1.0),
                                             surf(R='inf', t=0.09776301543271924, mat=MIRROR, hd=1.0),
                                             surf(R=-1.5026194022865764, k=-1.0, t=-0.5008731340955255, mat=MIRROR, hd=1.0)],
                                            ap=('EPD', 2.0), fields=(0.0,), wls=(0.5,)),
                'rays': [[0.0, 0.0, 0.0], [0.0, 1.0, 0.0]], 'wl': 0})

add(property='C07', id='C07-parabola-cancellation', status='open', clause='lengths_scale_with_the_prescription',
    what='same root cause as C05-/C02-parabola-cancellation: the conic root loses ~1e-15/|c (L^2+M^2+(1+k)N^2)| on a '
         'near-paraboloid reached by an almost axial ray, and that noise is not covariant under the transformations of '
         'this property, e.g. paraboloid mirror R=6 tilted by 1e-5 rad, axial ray: z on the mirror -3.6e-5 instead of 0 in '
         'the lens scaled by 10; recorded, not repaired (the stable root changes a value pinned by '
         'tests/test_operand.py::TestRayOperand::test_opd_diff_on_axis)',
    region='a trace in which a ray reaches a standard conic surface with |1+k| < 0.05 with 0 < |L^2+M^2+(1+k)N^2| < 1e-4',
    weakened_relation='the relation is judged ray by ray with the additional allowance 10 (1 + |c|max L) sum_k '
                      '1e-15/|c_k a_k| for lengths and 10 |c|max times that sum for direction cosines',
    reproducer={'kind': 'rescale', 'logs': 1.0, 'rays': [[0.0, 0.0, 0.0], [0.0, 0.5, 0.0]], 'wl': 0,
                'spec': spec([surf(R=6.0, k=-1.0, t=-0.2, mat=MIRROR, stop=True, ry=1e-5, hd=2.0),
                              surf(R='inf', t=9.088979819907806, mat=MIRROR, hd=2.2),
                              surf(R='inf', t=-6.035192443554193, mat=MIRROR, hd=12.0)],
                             t_obj=5.0, ap=('EPD', 4.0), fields=(0.0,), wls=(0.5,))})

add(property='C12', id='C12-rayfan-view-mutates', status='fixed', commit='259db07', clause='rayfan_y',
    what='fixed: property=C12 259db07 RayFan.view() set the stored ray errors of zero-intensity (clipped) rays to NaN in '
         'place: the reported fan depended on whether it had been drawn',
    reproducer=json.load(open(os.path.join(HERE, 'known_cases', 'C12-rayfan-view.json'))))

add(property='C11', id='C11-psf-view-mutates', status='fixed', commit='69b0c67', clause='psf_is_squared_modulus_of_dft',
    what='fixed: property=C11 69b0c67 FFTPSF.view() replaced the non-positive values of the stored PSF in place when the '
         'plotted region already had num_points (128) rows (no interpolation: the slice of self.psf itself reached the plot '
         'routine), e.g. grid 128, defocused PSF filling the grid: 255 zeros became 3.9e-6 and the total energy changed '
         'by 7.6e-6 (found by the thorough tier, draw-before-read history)',
    reproducer=json.load(open(os.path.join(HERE, 'known_cases', 'C11-psf-view-mutates.json'))))

add(property='C14', id='C14-solve-nan-poisons', status='fixed', commit='c3b6f18', clause='second_undo_restores_the_start',
    what='fixed: property=C14 c3b6f18 with a marginal-ray-height solve on the image surface, one objective evaluation at a '
         'degenerate prescription (least_squares tried radius 0) made the solve add NaN to the vertex positions; every '
         'later evaluation, the returned lens and the lens after undo() kept the NaN position',
    reproducer=json.load(open(os.path.join(HERE, 'known_cases', 'C14-solve-nan.json'))))

_negf = spec([surf(R=40.0, t=5.0, mat=glass(1.6), stop=True), surf(R=-60.0, t=50.0)], ap=('EPD', 8.0), fields=(0.0, -5.0))
add(property='C04', id='C04-negative-fields', status='fixed', commit='62531ac', clause='invariant',
    what='fixed: property=C04 62531ac the paraxial chief ray (and with it the Lagrange invariant) was built from the '
         'algebraically largest y field instead of the largest field magnitude that Hy = 1 stands for everywhere else: '
         'with fields (0, -5 deg) the chief ray was the zero ray and the invariant 0; with (-5) alone its sign was reversed',
    reproducer={'kind': 'spec', 'spec': _negf})
add(property='C08', id='C08-negative-fields', status='fixed', commit='62531ac', clause='seidel_sums',
    what='fixed: property=C08 62531ac same root cause as C04-negative-fields: every field-dependent third-order term was 0 '
         'for field sets whose largest y field is 0 (e.g. 0, -5 deg)',
    reproducer={'kind': 'spec', 'spec': _negf})
add(property='C09', id='C09-negative-fields', status='fixed', commit='62531ac', clause='opd_is_path_difference_to_reference_sphere',
    what='fixed: property=C09 62531ac same root cause as C04-negative-fields in Wavefront._correct_tilt: the field tilt '
         'was taken as max_y_field x Hy, which is 0 for fields (0, -5 deg): OPDs of the off-axis field wrong by the whole tilt',
    reproducer={'spec': _negf, 'dist': 'hexapolar', 'n': 0, 'fld': 1, 'wl': 0, 'extras': False, 'edit': None})
add(property='C09', id='C09-object-medium', status='fixed', commit='b5e523d', clause='opd_is_path_difference_to_reference_sphere',
    what='fixed: property=C09 b5e523d for an infinite object in a medium other than air the field-tilt term of the OPD was a '
         'geometric instead of an optical path: 36 waves error at 1.26 deg for n0 = 1.1',
    reproducer=json.load(open(os.path.join(HERE, 'known_cases', 'C09-object-medium.json'))))

add(property='C11', id='C11-pupil-mask-count', status='fixed', commit='13c730d', clause='no_exception',
    what='fixed: property=C11 13c730d FFTPSF masked its pupil grid with sqrt(x^2+y^2) <= 1 while the rays come from the '
         'uniform distribution (x^2+y^2 <= 1): for some samplings (num_rays = 31: 709 against 705 points) the PSF could not '
         'be computed (ValueError); noticed by a seeding agent, then reproduced by sampling num_rays over 16..64',
    reproducer={'spec': spec([surf(R=40.0, t=5.0, mat=glass(1.6), stop=True), surf(R=-60.0, t=38.0)], ap=('EPD', 8.0),
                             fields=(0.0, 2.0)),
                'N': 31, 'G': 64, 'fld': 0, 'defocus': 0.0, 'clip': False, 'ideal': False, 'mtf': False})

add(property='C15', id='C15-reset-without-update', status='fixed', commit='8a61076', clause='lens_nominal_after_run',
    what='fixed: property=C15 8a61076 Tolerancing.reset() restored perturbations and compensators but did not re-apply '
         'pickups: with a radius compensator that is the source of a pickup the target surface stayed at the value of the '
         'last trial after run() and after reset() (noted by a seeding agent, reproduced by adding such pickups)',
    reproducer=json.load(open(os.path.join(HERE, 'known_cases', 'C15-pickup-reset.json'))))

add(property='C01', id='C01-solve-slope', status='fixed', commit='08843a4', clause='solve_places_marginal_ray',
    what='fixed: property=C01 08843a4 marginal_ray_height solve (and image_solve) used the marginal slope behind the '
         'moved surface: on a powered surface the requested height was missed (two mirrors, R=5: 2.0 instead of 0.0)',
    reproducer={'kind': 'edit', 'spec': spec([surf(R=40.0, t=5.0, mat=glass(1.6), stop=True), surf(R=-30.0, t=20.0),
                                             surf(R=25.0, t=4.0, mat=glass(1.5)), surf(R='inf', t=30.0)],
                                            ap=('EPD', 8.0), fields=(0.0, 3.0)),
                'ops': [{'op': 'solve', 's': 1, 'h': 1.5}, {'op': 'set_radius', 's': 0, 'v': 55.0}, {'op': 'update'},
                        {'op': 'set_index', 's': 2, 'v': 1.7}, {'op': 'image_solve'}]})

add(property='C01', id='C01-conic-lost', status='fixed', commit='3e03bb0', clause='conics',
    what='fixed: property=C01 3e03bb0 set_radius on a flat surface discarded the conic constant set on it earlier',
    reproducer={'kind': 'edit', 'spec': spec([surf(R='inf', t=5.0, mat=glass(1.6), stop=True), surf(R=-30.0, t=20.0)],
                                            ap=('EPD', 8.0), fields=(0.0, 3.0)),
                'ops': [{'op': 'set_conic', 's': 0, 'v': -1.0}, {'op': 'set_radius', 's': 0, 'v': 55.0}]})

_c19_spec = spec([surf(R=40.0, t=5.0, mat=glass(1.6), stop=True), surf(R=-60.0, t=12.0), surf(R=30.0, t=4.0, mat=glass(1.5)),
                  surf(R='inf', t=40.0)], ap=('EPD', 8.0), fields=(0.0, 3.0))
_c19_rays = [[0.0, 0.0, 0.0], [0.5, 0.3, 0.4], [1.0, -0.5, 0.5], [1.0, 0.0, 1.0]]


def _ex(**kw):
    e = dict(fresnel=[], bsdf=None, abbe=None, polar=None, wl_unit='um', pickups=[], solve=None, edits=[], tele=False)
    e.update(kw)
    return e


add(property='C19', id='C19-array-z', status='fixed', commit='d823a64', clause='json_serialisable',
    what='fixed: property=C19 d823a64 after set_thickness / scale_system / a solve the vertex z values were numpy arrays '
         'and json.dump of the lens raised TypeError',
    reproducer={'spec': _c19_spec, 'ex': _ex(edits=[['set_thickness', 1, 7.5], ['scale_system', 0, 2.0]],
                                             solve=[1, 1.0]), 'rays': _c19_rays, 'wl': 0})
add(property='C19', id='C19-pickup-reapply', status='fixed', commit='3ba8645', clause='reloaded_dict_equals_source',
    what='fixed: property=C19 3ba8645 from_dict re-applied pickups, changing the reloaded prescription (rounding of vertex '
         'positions, or a target edited after the last update)',
    reproducer={'spec': _c19_spec, 'ex': _ex(pickups=[['thickness', 0, 2, 1.0, 0.0], ['radius', 0, 2, -1.0, 0.0]],
                                             edits=[['set_radius', 2, 20.0]]), 'rays': _c19_rays, 'wl': 0})
add(property='C19', id='C19-fresnel-json', status='fixed', commit='9eda77c', clause='json_serialisable',
    what='fixed: property=C19 9eda77c FresnelCoating.to_dict embedded material objects: lens not JSON serialisable',
    reproducer={'spec': _c19_spec, 'ex': _ex(fresnel=[0, 1], polar='H'), 'rays': _c19_rays, 'wl': 0})
add(property='C19', id='C19-polarization-json', status='fixed', commit='f97803c', clause='json_serialisable',
    what='fixed: property=C19 f97803c Optic.to_dict embedded the PolarizationState object: lens not JSON serialisable',
    reproducer={'spec': _c19_spec, 'ex': _ex(polar='L+45'), 'rays': _c19_rays, 'wl': 0})

add(property='C13', id='C13-caller-arrays', status='fixed', commit='7e803d3', clause='caller_arrays_unmodified',
    what='fixed: property=C13 7e803d3 trace_generic scaled the caller\'s Px/Py arrays in place when the field has '
         'vignetting factors',
    reproducer={'spec': spec([surf(R=40.0, t=5.0, mat=glass(1.6), stop=True), surf(R=-60.0, t=50.0)], ap=('EPD', 8.0),
                             fields=(0.0, 3.0)), 'polar': None,
                'calls': [{'call': 'trace_generic_array', 'a': 1, 'b': 1, 'h': 1.0, 'px': 0.8, 'py': 0.5},
                          {'call': 'paraxial', 'a': 0, 'b': 0, 'h': 0.0, 'px': 0.0, 'py': 0.0},
                          {'call': 'spot', 'a': 0, 'b': 0, 'h': 0.0, 'px': 0.0, 'py': 0.0},
                          {'call': 'trace', 'a': 0, 'b': 1, 'h': 0.5, 'px': 0.0, 'py': 0.0}], 'repeat': [0]})

add(property='C20', id='C20-image-surface-dropped', status='fixed', commit='0853a40', clause='radii',
    what='fixed: property=C20 0853a40 the Zemax reader dropped the last SURF block of every file (the image surface) and '
         'substituted a default plane: a curved image lost its radius/conic',
    reproducer={'mode': 'SEQ', 'ap': ['ENPD', 5.0], 'ftype': 0, 'fields_y': [0.0, 5.0], 'wls': [0.55], 'prim': 0,
                'stop': 0, 'obj_inf': True, 'obj_t': 100.0, 'img_curv': -0.01, 'fmt': 'g', 'enc': 'utf-8', 'gcat': None,
                'surfs': [{'type': 'STANDARD', 'curv': 0.02, 'disz': 4.0, 'conic': 0.0, 'parms': [0.0] * 8,
                           'glass': {'name': 'ZQX11W', 'known': False, 'nd': 1.6, 'vd': 50.0}},
                          {'type': 'STANDARD', 'curv': -0.02, 'disz': 45.0, 'conic': 0.0, 'parms': [0.0] * 8,
                           'glass': None}]})

add(property='C17', id='C17-diattenuator-offdiagonal', status='open', clause='element_is_rotated_element',
    what='JonesLinearDiattenuator off-diagonal entries are t_max - t_min*cos(theta)*sin(theta) (operator precedence) '
         'instead of (t_max - t_min)*cos(theta)*sin(theta): at theta=0 the element is not diagonal; the value is pinned by '
         'tests/test_jones.py, so it is recorded, not repaired',
    region='JonesLinearDiattenuator', weakened_relation='diagonal entries follow R(theta) D R(-theta); off-diagonals equal',
    reproducer={'kind': 'element', 'theta': 0.3, 'd': 1.0, 'tmin': 0.2, 'tmax': 0.9})
add(property='C17', id='C17-tilted-frames', status='fixed', commit='76123e6', clause='field_stays_transverse',
    what='fixed: property=C17 76123e6 polarization matrices were not rotated into tilted surface frames (field not '
         'transverse, intensity not preserved after a tilted surface); index-matched curved surfaces used a rounding-noise '
         's-vector',
    reproducer={'kind': 'trace', 'spec': spec([surf(R=40.0, t=5.0, mat=glass(1.6), stop=True, rx=0.08),
                                              surf(R=-60.0, t=40.0, ry=-0.05)], ap=('EPD', 8.0), fields=(0.0, 5.0)),
                'rays': [[1.0, 0.3, 0.4], [1.0, -0.5, 0.5], [1.0, 0.0, 0.0]], 'state': {'name': 'H'}, 'wl': 0})

_bk7 = dict(kind='glass', name='N-BK7 (SCHOTT)', file='glass/schott/N-BK7.yml')
add(property='C08', id='C08-chromatic-height', status='open', clause='surface_term_TAchC',
    what='Aberrations._TAchC_term/_TchC_term use the marginal height of the previous record (ya[k-1]) instead of the '
         'height on surface k: axial and lateral colour contributions of every surface after the first are scaled by '
         'y(k-1)/y(k) (3.5% on the second surface of a 5 mm thick doublet element; zero on surface 1 for finite objects); '
         'tests/test_aberrations.py pins the values, so it is recorded, not repaired',
    region='all lenses (every surface k >= 2; surface 1 for finite objects)',
    weakened_relation='TAchC_k, TchC_k equal Smith\'s formulas evaluated with the marginal height of the previous record',
    reproducer={'kind': 'spec', 'spec': spec([surf(R=50.0, t=5.0, mat=_bk7), surf(R=-40.0, t=2.0, mat=glass(1.7), stop=True),
                                              surf(R=-120.0, t=80.0)], ap=('EPD', 12.0), fields=(0.0, 5.0))})
add(property='C08', id='C08-mirror-terms', status='open', clause='surface_term_TSC',
    what='third-order terms use optic.n(), which reports the same positive index on both sides of a mirror: reflecting '
         'surfaces contribute exactly 0 to TSC, CC, TAC, TPC and the colour terms, and refracting surfaces after a mirror '
         'are evaluated with unsigned indices (a concave mirror R=-100, EPD 20 has zero spherical aberration according to '
         'seidels()); a repair needs the signed-index convention throughout, recorded',
    region='lens contains a reflecting surface',
    weakened_relation='terms of reflecting surfaces are exactly 0 (except DC); terms of refracting surfaces equal the '
                      'formulas evaluated with unsigned indices; all identities still hold',
    reproducer={'kind': 'spec', 'spec': spec([surf(R=-100.0, t=-45.0, mat=MIRROR, stop=True)], ap=('EPD', 20.0),
                                             fields=(0.0, 2.0))})

add(property='C07', id='C07-chebyshev-normal', status='open', clause='lengths_scale_with_the_prescription',
    what='same root cause as C02-chebyshev-normal (missing 1/norm in the Chebyshev gradient): scaling all lengths of a '
         'lens with a Chebyshev surface does not scale the rays behind that surface, because the erroneous part of the '
         'normal depends on norm_x/norm_y',
    region='rescale of a lens containing a Chebyshev surface with non-zero coefficients',
    weakened_relation='records in front of the first Chebyshev surface scale with s',
    reproducer={'kind': 'rescale', 'spec': spec([surf(R=40.0, t=5.0, mat=glass(1.6), stop=True),
                                                 surf(type='chebyshev', R=-60.0, t=40.0, coef=[[0.0, 0.02], [0.01, 0.0]],
                                                      norm=20.0)], ap=('EPD', 8.0), fields=(0.0, 3.0)),
                'rays': [[0.0, 0.0, 0.0], [0.5, 0.3, 0.4], [1.0, -0.5, 0.5]], 'logs': 1.0, 'wl': 0})

add(property='C06', id='C06-other-sheet-root', status='fixed', commit='212f09f', clause='rays_exist_inside_the_geometric_limit',
    what='fixed: property=C06 212f09f for fast hyperboloid mirrors the conic root on the other sheet was chosen (smaller '
         '|z|) and the ray lost although it meets the mirror',
    reproducer={'R': 5.0, 'a': 0.5, 'b': 3.0, 'family': 'hyperboloid', 'fill': 0.75, 'n': 2.0, 'psf': False, 'sign': 1,
                'wl': 0.5})

add(property='C09', id='C09-image-surface-refracts', status='open', clause='opd_is_path_difference_to_reference_sphere',
    what='when the image surface itself refracts (its own medium differs from the medium in front of it, e.g. the image '
         'surface is the rear face of the last glass and keeps the default medium air, as in the Microscope20x and '
         'UVReflectingMicroscope samples) Wavefront mixes the two sides: the reference sphere reaches the exit pupil as '
         'seen from the medium in front (Paraxial.XPL() is the distance to the stop when the stop is the last surface, '
         'ignoring the refraction at the image surface), while the rays are taken back to it '
         'with the directions and the index of the medium behind. The result is the OPD of neither reading and differs '
         'from the OPD of the same lens written with the rear face as an explicit surface 0 mm in front of the image '
         'surface, e.g. object at 9 mm in n = 1.5, surface R = 3.05 into N-BK7, image after 216.69 mm, EPD 2: rim sample '
         '3.710 waves, explicit form 1.995 waves. A repair has to decide on which side of a refracting image surface '
         'image space lies (XPL() including the image surface changes pinned paraxial values; using the arriving '
         'directions changes every OPD by rounding), so it is recorded, not repaired',
    region='lenses whose image surface refracts and whose stop is the last surface, samples that match neither consistent reading',
    weakened_relation='OPD == reference computed with the exit pupil seen from the medium in front of the image surface and '
                      'the ray directions and index of the medium behind it',
    reproducer=json.load(open(os.path.join(HERE, 'known_cases', 'C09-image-surface-refracts.json'))))

add(property='C09', id='C09-image-index', status='fixed', commit='09399f0', clause='opd_is_path_difference_to_reference_sphere',
    what='fixed: property=C09 09399f0 the distance from the image surface back to the reference sphere was not multiplied by '
         'the image-space index (image in glass: OPD wrong by hundreds of waves)',
    reproducer={'spec': spec([surf(R=40.0, t=5.0, mat=glass(1.6), stop=True), surf(R=-60.0, t=6.0),
                              surf(R=30.0, t=45.0, mat=glass(1.5))], ap=('EPD', 8.0), fields=(0.0, 3.0), img=glass(1.5)),
                'dist': 'hexapolar', 'n': 2, 'fld': 1, 'wl': 0, 'extras': False})

_c11_spec = spec([surf(R=40.0, t=5.0, mat=glass(1.6), stop=True), surf(R=-60.0, t=40.0)], ap=('EPD', 8.0), fields=(0.0, 3.0))
add(property='C11', id='C11-odd-padding', status='fixed', commit='70a9198', clause='psf_on_requested_grid',
    what='fixed: property=C11 70a9198 odd grid_size - num_rays gave a (grid_size-1)^2 PSF and a Strehl ratio read next to the '
         'peak',
    reproducer={'spec': _c11_spec, 'N': 24, 'G': 65, 'fld': 0, 'defocus': 0.0, 'clip': False, 'ideal': True, 'mtf': True})
add(property='C11', id='C11-mtf-frequency-axis', status='fixed', commit='4fa07f3', clause='mtf_frequency_axis',
    what='fixed: property=C11 4fa07f3 FFTMTF frequency axis wrong by grid_size/1000 (and view() failed for odd grid_size)',
    reproducer={'spec': _c11_spec, 'N': 32, 'G': 128, 'fld': 0, 'defocus': 0.3, 'clip': False, 'ideal': False, 'mtf': True})
add(property='C11', id='C11-clipped-normalisation', status='open', clause='psf_is_squared_modulus_of_dft',
    what='FFTPSF normalises the amplitude by the mean intensity over all pupil samples (clipped ones included) but the '
         'reference peak by the number of non-zero samples: with k of n samples clipped the PSF is too large by (n/(n-k))^2 '
         '(peak > 100, Strehl > 1 for an unaberrated clipped pupil); which of the two normalisations is intended is a '
         'maintainer decision, recorded',
    region='pupil with at least one zero-intensity sample (ray clipped by an aperture)',
    weakened_relation='PSF equals |DFT|^2 x 100 / (number of non-zero samples)^2 (shape, energy ratio and MTF still checked)',
    reproducer={'spec': spec([surf(R=40.0, t=5.0, mat=glass(1.6), stop=True), surf(R=-60.0, t=40.0, ap=dict(r_max=3.0, r_min=0.0))],
                             ap=('EPD', 8.0), fields=(0.0, 3.0)),
                'N': 24, 'G': 64, 'fld': 0, 'defocus': 0.0, 'clip': True, 'ideal': False, 'mtf': False})

_c12_spec = spec([surf(R=40.0, t=5.0, mat=glass(1.6), stop=True), surf(R=-60.0, t=47.0)], ap=('EPD', 8.0),
                 fields=(0.0, 3.0, 5.0), wls=(0.48, 0.55, 0.65), prim=1)
_c12_fin = spec([surf(R=40.0, t=5.0, mat=glass(1.6)), surf(R=-60.0, t=4.0, stop=True), surf(R='inf', t=70.0)], t_obj=150.0,
                ap=('EPD', 8.0), ftype='object_height', fields=(0.0, 6.0, 10.0), wls=(0.55,))


def _c12(analysis, sp=_c12_spec, **kw):
    c = dict(spec=sp, analysis=analysis, fields='all', wls='all', n=1, h=0.7, px=0.3, py=-0.4)
    c.update(kw)
    return c


add(property='C12', id='C12-explicit-wavelength-index', status='fixed', commit='3f55be9', clause='rms_vs_field_defined_for_explicit_lists',
    what='fixed: property=C12 3f55be9 explicit wavelength lists shorter than / not containing the primary wavelength raised '
         'IndexError (SpotDiagram radii, RmsSpotSizeVsField) or KeyError (RayFan)',
    reproducer=_c12('rms_field', wls='single', n=0))
add(property='C12', id='C12-distortion-object-height', status='fixed', commit='55bbf09', clause='distortion_is_departure_from_paraxial_height',
    what='fixed: property=C12 55bbf09 Distortion / GridDistortion used tan(H * radians(max_field)) as paraxial reference also '
         'for object-height fields (5 5bd0742: GridDistortion mirrored the predicted x for object heights)',
    reproducer=_c12('distortion', sp=_c12_fin, n=0))
add(property='C12', id='C12-grid-distortion-x-mirror', status='fixed', commit='5bd0742', clause='grid_predicted_x',
    what='fixed: property=C12 5bd0742 GridDistortion mirrored the predicted x also for object-height fields (max distortion ~200 %)',
    reproducer=_c12('grid_distortion', sp=_c12_fin, n=0))
add(property='C12', id='C12-grid-distortion-nan', status='fixed', commit='507f6b1', clause='grid_max_distortion',
    what='fixed: property=C12 507f6b1 GridDistortion max_distortion was NaN whenever num_points is odd (0/0 at the centre point)',
    reproducer=_c12('grid_distortion', n=0))
add(property='C12', id='C12-paraxial-trace-nan', status='fixed', commit='0f36894', clause='pupil_aberration_y',
    what='fixed: property=C12 0f36894 paraxial.trace() computed 0/0 for an infinite object when the entrance pupil is on surface '
         '1: PupilAberration returned NaN for every lens with the stop on the first surface',
    reproducer=_c12('pupil_aberration', n=1))

_c14_spec = spec([surf(R=40.0, t=5.0, mat=glass(1.6), stop=True), surf(R=-60.0, t=47.0)], ap=('EPD', 8.0), fields=(0.0, 3.0))
add(property='C14', id='C14-result-not-applied', status='fixed', commit='eecaabf', clause='lens_is_at_returned_solution',
    what='fixed: property=C14 eecaabf optimizers returned without applying result.x (dual annealing left the lens at an '
         'arbitrary trial point; multi-process differential evolution never touched the lens)',
    reproducer={'spec': _c14_spec, 'operands': [{'type': 'f2', 'rel': 1.2, 'weight': 1.0, 'a': 0, 'h': 0.0}],
                'variables': [{'type': 'radius', 's': 0, 'scaled': True, 'bounded': True, 'axis': 'x'}],
                'opt': 'dual_annealing', 'pickup': False, 'second': 'generic'})
add(property='C14', id='C14-unscaled-bounds', status='fixed', commit='1591c67', clause='bounds_in_units_of_value',
    what='fixed: property=C14 1591c67 Variable.bounds scaled min/max although apply_scaling=False',
    reproducer={'spec': _c14_spec, 'operands': [{'type': 'f2', 'rel': 1.1, 'weight': 1.0, 'a': 0, 'h': 0.0}],
                'variables': [{'type': 'radius', 's': 0, 'scaled': False, 'bounded': True, 'axis': 'x'}],
                'opt': 'generic', 'pickup': False, 'second': 'generic'})

add(property='C15', id='C15-monte-carlo-no-reset', status='fixed', commit='e92728b', clause='lens_nominal_after_run',
    what='fixed: property=C15 e92728b MonteCarlo.run() left the lens in the perturbed state of the last trial',
    reproducer={'spec': _c14_spec, 'operands': [{'type': 'f2', 'h': 0.0}],
                'perts': [{'type': 'radius', 's': 0, 'axis': 'x', 'sampler': 'normal', 'mag': 0.01, 'steps': 3, 'seed': 5},
                          {'type': 'thickness', 's': 0, 'axis': 'x', 'sampler': 'uniform', 'mag': 0.02, 'steps': 3, 'seed': 6}],
                'comp': 'none', 'method': 'generic', 'mode': 'monte_carlo', 'iters': 3})

for _e in F:
    if _e['id'] == 'C13-caller-arrays':
        _e['reproducer']['spec']['fields'][1].update(vx=0.2, vy=0.3)

if __name__ == '__main__':
    json.dump({'findings': F}, open(os.path.join(HERE, 'known_findings.json'), 'w'), indent=1)
    print(len(F), 'findings written')
