#!/bin/bash
# Cross-runs every kept seeded change against every check (quick tier) and writes seeded/MATRIX.md:
# which checks, besides the one of the change's own property, report it.   JOBS=<parallel changes>  WORKERS=<per check>
# ONLY=<glob of seeded/ names> re-runs a subset and merges it into the existing table.
HERE="$(cd "$(dirname "${BASH_SOURCE[0]}")/.." && pwd)"; cd "$HERE" || exit 2
JOBS="${JOBS:-4}"; export WORKERS="${WORKERS:-4}"; export HERE; ONLY="${ONLY:-*}"
mkdir -p .cache/matrix
one() {
  d="$1"; name="$(basename "$d")"
  wt="/tmp/seedmx_${name}_$$"
  git -C /repo worktree add -q --detach "$wt" HEAD 2>/dev/null || { echo "$name worktree failed"; return; }
  if ! git -C "$wt" apply "$HERE/$d/patch.diff" 2>/dev/null; then echo "$name|PATCH DOES NOT APPLY"; git -C /repo worktree remove --force "$wt"; return; fi
  tmp="$(mktemp -d)"; cp -r "$HERE/vf" "$HERE/tools" "$HERE/run" "$HERE/known_findings.json" "$tmp"/; mkdir -p "$tmp/evidence" "$tmp/replay" "$tmp/.cache"
  ln -s "$HERE/.deps" "$tmp/.deps" 2>/dev/null
  hits=""
  for p in C01 C02 C03 C04 C05 C06 C07 C08 C09 C10 C11 C12 C13 C14 C15 C16 C17 C18 C19 C20; do
    ( cd "$tmp" && REPO_DIR="$wt" VERIF_WORKERS="$WORKERS" VERIF_NO_SHRINK=1 ./run "$p" --tier quick > "log_$p.txt" 2>&1 ); code=$?
    if [ "$code" = 1 ]; then hits="$hits $p"; elif [ "$code" != 0 ]; then hits="$hits $p(exit$code)"; fi
  done
  echo "$name|$hits"
  rm -rf "$tmp"; git -C /repo worktree remove --force "$wt" >/dev/null 2>&1
}
export -f one
( if [ -n "$LIST" ]; then for n in $LIST; do echo "seeded/$n"; done; else ls -d seeded/$ONLY/ | sed 's#/$##'; fi ) | xargs -P "$JOBS" -I{} bash -c 'one {}' | sort > .cache/matrix/new.txt
# merge with the rows of earlier runs (ONLY=<glob> re-runs a subset)
touch .cache/matrix/matrix.txt
python3 - <<'EOM'
rows = {}
for fn in ('.cache/matrix/matrix.txt', '.cache/matrix/new.txt'):
    for l in open(fn):
        if '|' in l:
            k, v = l.rstrip('\n').split('|', 1)
            rows[k] = v
open('.cache/matrix/matrix.txt', 'w').write(''.join('%s|%s\n' % kv for kv in sorted(rows.items())))
EOM
python3 - <<'EOP'
rows = [l.rstrip('\n').split('|') for l in open('.cache/matrix/matrix.txt') if '|' in l]
with open('seeded/MATRIX.md', 'w') as f:
    f.write('# Seeded changes x all checks (quick tier)\n\nEach kept change was applied to a scratch worktree and all 20 quick checks were run against it.\n\n'
            '| change | checks that report a violation |\n|---|---|\n')
    for r in rows:
        f.write('| %s | %s |\n' % (r[0], r[1].strip() or '(none)'))
pass
EOP
