#!/bin/bash
# tools/confirm_seed.sh <out_dir> <k> : confirms a sub-agent's change k (demo clean=0, demo patched=1, suite passes) in a
# scratch worktree and, if confirmed, copies it to seeded/<PID>-<k>/ with what was run recorded in meta.json.
OUT="$1"; K="$2"; KD="${3:-$2}"    # KD: index used for the kept directory name
HERE="$(cd "$(dirname "${BASH_SOURCE[0]}")/.." && pwd)"
PID="$(python3 -c "import json;print(json.load(open('$OUT/meta_$K.json'))['property'])")"
WT="/tmp/confirm_${PID}_${K}_$$"; NB="/tmp/nbc_confirm_${PID}_${K}_$$"
git -C /repo worktree add -q --detach "$WT" HEAD || exit 2
trap 'git -C /repo worktree remove --force "$WT" >/dev/null 2>&1; rm -rf "$NB"' EXIT
E="env PYTHONPATH=$WT MPLBACKEND=Agg NUMBA_CACHE_DIR=$NB"
( cd /tmp && $E /venv/bin/python "$OUT/demo_$K.py" >/dev/null 2>&1 ); C=$?
git -C "$WT" apply "$OUT/change_$K.diff" || { echo "$PID-$K: PATCH DOES NOT APPLY"; exit 1; }
( cd /tmp && $E /venv/bin/python "$OUT/demo_$K.py" >/dev/null 2>&1 ); P=$?
T="$( cd "$WT" && $E /venv/bin/python -m pytest -q -p no:cacheprovider -n 5 tests 2>&1 | tail -1 )"
echo "$PID-$K: demo clean=$C patched=$P tests: $T"
if [ "$C" = 0 ] && [ "$P" = 1 ] && echo "$T" | grep -q "929 passed" && ! echo "$T" | grep -q failed; then
  D="$HERE/seeded/$PID-$KD"; mkdir -p "$D"
  cp "$OUT/change_$K.diff" "$D/patch.diff"; cp "$OUT/demo_$K.py" "$D/demo.py"
  python3 - "$OUT/meta_$K.json" "$D/meta.json" "$T" <<'EOP'
import json, sys
m = json.load(open(sys.argv[1]))
m['confirmed'] = {'demo_exit_on_clean_tree': 0, 'demo_exit_with_patch': 1, 'suite_with_patch': sys.argv[3],
                  'how': 'tools/confirm_seed.sh in a scratch git worktree of /repo (HEAD incl. fix commits); never applied to /repo'}
m['origin'] = 'independent sub-agent given only the property text and its own scratch worktree'
json.dump(m, open(sys.argv[2], 'w'), indent=1)
EOP
  echo "$PID-$K: KEPT as $PID-$KD"
else
  echo "$PID-$K: NOT CONFIRMED"
fi
