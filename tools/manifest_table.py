REPO_FIX_COMMITS = ['2d7a94d', '41c6b34', '15c99e7', '0752c0c', '7f84765', 'af57352', 'e33a24d', '5bdc6b3', '08843a4', '3e03bb0', 'd823a64', '3ba8645', '9eda77c', 'f97803c', '7e803d3', '0853a40', '76123e6', '212f09f', '09399f0', '70a9198', '4fa07f3', '3f55be9', '55bbf09', '507f6b1', '5bd0742', '0f36894', 'eecaabf', '1591c67', 'e92728b', '45f9b63', '259db07', 'c3b6f18', '62531ac', 'b5e523d', '13c730d', '8a61076', '69b0c67']
NOT_APPLICABLE = {}
CHECKS = {
 'C18': dict(
  technique='exhaustive enumeration of the 2593 catalogue rows + Hypothesis-generated wavelengths / look-ups / '
            'model glasses, against an independent evaluation of the refractiveindex.info formula sheet',
  level='Every catalogue row is evaluated at grid and generated wavelengths against a from-scratch implementation '
        'of the nine dispersion formulas and of linear table interpolation; every exact-name query (thorough) is '
        'looked up. Counter-example search with complete row coverage, not a proof over the wavelength continuum.',
  note='Trusts PyYAML and the CSV catalogue as the statement of what each row defines; ill-ordered tables are skipped '
       'inside their disordered span; model-glass bound calibrated on the pinned tree (see DESIGN 3/C18).',
  design='3/C18'),
 'C04': dict(
  technique='Hypothesis-generated prescriptions (and the 24 enumerated samples) compared with an independent ABCD '
            '(y, n*u) matrix reference; history-free differential oracle',
  level='Every first-order accessor and both paraxial ray arrays are compared with ray-transfer matrices built from '
        'the generated spec (curvatures, separations, indices from my own dispersion evaluation), for thousands of '
        'systems spread over mirror/stop/conjugate/aperture/field classes; plus invariant constancy and linearity. '
        'Counter-example search, not proof.',
  note='Conventions fixed in DESIGN 3/C04 (f2 vs n\'/phi etc.); three sign findings are weakened inside their regions '
       '(known_findings.json); conditioning guard for near-afocal systems.',
  design='3/C04'),
 'C02': dict(
  technique='Hypothesis-generated lenses x ray bundles (and the 24 enumerated samples) checked by an independent '
            'per-surface law checker (own frames, sag/gradient, dispersion, conic intersection)',
  level='Every recorded surface hit of every generated ray is checked for on-surface residual, unit direction, '
        'vector Snell / reflection law, half-space, optical path and non-finite discipline against geometry and media '
        're-derived from the spec. Counter-example search with measured class coverage (shapes, mirrors, tilts, TIR, '
        'misses), not proof.',
  note='Tolerances in DESIGN 3/C02; non-finite discipline asserted for closed-form shapes with clear margins only; '
       'Chebyshev normals are checked against the library\'s mis-scaled gradient inside the known finding\'s region.',
  design='3/C02'),
 'C03': dict(
  technique='Hypothesis-generated lenses x the full cross product of aperture kind / field type / telecentric flag x '
            'ray bundles, launch records compared with the ABCD entrance pupil; distributions enumerated by name with '
            'generated counts',
  level='Launch origin, direction, aim point on the reference entrance pupil, intensity/path/wavelength, documented '
        'distribution counts and the rejection of the stated invalid combinations are checked on generated lenses and '
        'rays. Counter-example search with per-combination coverage counts.',
  note='Entrance pupil from the independent ABCD reference; vignetted aim points only required to shrink; telecentric '
       'launch with object index 1.',
  design='3/C03'),
 'C16': dict(
  technique='Hypothesis-generated lenses with apertures / absorbing media / coatings x ray bundles; per-surface '
            'intensity reference model recomputed from the recorded points',
  level='Recorded intensity at every surface of every finite ray equals the product model (absorption over the '
        'geometric segment, aperture test in an independently derived local frame, coating factor), stays in [0,1], '
        'never increases; rays.i and SpotDiagram intensities equal the last record. Counter-example search.',
  note='Polarization off; edge rays within 1e-9 of an aperture rim not judged; k from my own table interpolation.',
  design='3/C16'),
 'C05': dict(
  technique='Hypothesis-generated centred lenses x a geometric sequence of aperture/field scale factors; metamorphic '
            'limit relation against the independent ABCD reference rays',
  level='For every generated lens real-ray heights and slope tangents at every surface, divided by the scale factor, '
        'are required to approach the ABCD marginal/chief ray with a defect bounded by 4 K eps^2 (K from the two largest '
        'eps) down to eps = 1e-4. Counter-example search; a first-order disagreement of either tracer shows up as a '
        'non-vanishing defect.',
  note='Centred systems only (see DESIGN 3/C05); round-off floor stated in the evidence rule; near-parabolic conics '
       'carry the weakened floor of known finding C05-parabola-cancellation.',
  design='3/C05'),
 'C01': dict(
  technique='model-based testing of generated edit histories (Hypothesis-generated operation lists interpreted against '
            'the library and a dictionary model; the whole history shrinks as one value)',
  level='After every operation of a generated history the complete observable prescription (vertices, radii, conics, '
        'coefficients, tilts/decentres, media on both sides of every surface, stop and primary flags) must equal a model '
        'updated with the documented semantics; pickup relations and solve heights (ABCD reference) are checked after '
        'update(). Counter-example search over histories of up to 30 steps.',
  note='Well-founded pickup/solve sets only (DESIGN 3/C01); histories are generated as data rather than with '
       'RuleBasedStateMachine so that they are JSON replay files as they stand.',
  design='3/C01'),
 'C19': dict(
  technique='round-trip property over Hypothesis-generated full-feature lenses and edit histories (dict -> JSON -> dict, '
            'and through a file), with differential tracing of the original against the reloaded lens',
  level='For generated lenses covering every serialisable feature, before and after generated edit histories, the '
        'dictionary must survive json.dumps, the reloaded dictionary must equal the source exactly, a generated ray '
        'bundle must trace bit-identically and ten paraxial accessors must be identical. Counter-example search.',
  note='Scatter surfaces take only the dictionary clauses; lenses are brought to a state through the public API only.',
  design='3/C19'),
 'C13': dict(
  technique='history-based property testing: Hypothesis-generated interleavings of 20 kinds of tracing / analysis calls '
            'with history invariants (state snapshot, repeat identity, fresh-twin differential, argument immutability)',
  level='After every call of a generated history the serialised lens must be unchanged, a repeated call must return '
        'bit-identical arrays, the first occurrence of a call must equal the same call on a never-used twin lens, caller '
        'arrays must be unmodified; single-ray vs batch traces agree within the surface tolerance. Counter-example search '
        'over call interleavings.',
  note='Deterministic distributions only; bit-identity within one interpreter; histories generated as data (replayable '
       'JSON) rather than with RuleBasedStateMachine.',
  design='3/C13'),
 'C20': dict(
  technique='round-trip against an independent .zmx writer over Hypothesis-generated prescriptions, plus a '
            'coverage-guided Atheris/libFuzzer campaign over FuzzedDataProvider-decoded prescriptions with the same '
            'oracle inside the target',
  level='Every field of the loaded lens (counts, radii, vertices, conics, coefficients, media, stop, aperture, fields, '
        'wavelengths, primary) is compared with the numbers written into the file, in both encodings and three number '
        'formats; paraxial accessors are compared with the ABCD reference of the written numbers; NSC files must be '
        'rejected. Counter-example search (Hypothesis) + coverage-guided search (thorough: 12 x 6000 libFuzzer runs).',
  note='Writer and reference are mine; catalogue glasses restricted to unique single-token exact names; model glass '
       'index taken from the library\'s AbbeMaterial (C18 covers it).',
  design='3/C20'),
 'C10': dict(
  technique='exhaustive enumeration of the 3 x 120 index tables against independently coded published rules, exact '
            'quadrature Gram matrices, and Hypothesis-generated coefficient vectors / point sets (linearity, recovery) '
            'plus lens wavefront decompositions against an independent lstsq fit',
  level='Index tables, edge values, radial polynomials and (ortho)normality are decided completely (finite, enumerated); '
        'linearity, recovery and the truncation-residual clause are searched over generated coefficient vectors, three '
        'kinds of point sets and generated imaging lenses.',
  note='Sine-term sign not fixed by the property (compared up to sign); fit tolerance scales with the condition number '
       'of the sampled basis.',
  design='3/C10'),
 'C17': dict(
  technique='Hypothesis-generated index pairs/angles, element parameters, and lenses x ray bundles x polarization states, '
            'checked against textbook Fresnel formulas, energy conservation, projector/unitary algebra and the '
            'orthogonal-pair identity',
  level='Energy conservation and Fresnel magnitudes for generated (n1,n2,theta) below the critical angle incl. Brewster '
        'and normal incidence; transversality / isometry / unit intensity of the polarization ray trace on generated '
        '(tilted, mirrored, aspheric) lenses; unpolarized = mean of an orthogonal pair with Fresnel coatings everywhere; '
        'polarizers enumerated; retarders and diattenuators at generated angles. Counter-example search.',
  note='Amplitude signs are convention dependent (magnitudes compared); diattenuator carries known finding '
       'C17-diattenuator-offdiagonal; trace clauses at 1e-7.',
  design='3/C17'),
 'C08': dict(
  technique='Hypothesis-generated sphere/plane prescriptions (and the enumerated samples) against two independent '
            'derivations (Smith surface formulas on ABCD reference rays; Welford invariant sums), algebraic identities, a '
            'metamorphic stop-shift pair and a real-ray small-aperture limit',
  level='Per-surface TSC/CC/TAC/TPC/DC/TAchC/TchC, the five sums (two routes), every identity of the returned families, '
        'all accessors and operands, stop-shift invariance of S_I/S_IV and the Richardson-extrapolated real marginal-ray '
        'error are checked on generated lenses. Counter-example search.',
  note='Two open findings weaken the colour terms (previous-record height) and mirror systems (unsigned indices) inside '
       'their regions only; near-afocal / zero-invariant systems counted, not judged.',
  design='3/C08'),
 'C07': dict(
  technique='metamorphic testing: Hypothesis-generated lens x transformation (meridional mirrors, tilt about the centre '
            'of curvature, dummy surface, wavelength change, global rescale, scale_system) x ray bundle, comparing the '
            'two traces / first-order / Seidel results by the stated relation',
  level='Six families of re-description are applied to generated lenses and the complete recorded traces (positions, '
        'directions, optical path, intensity), focal data and Seidel sums are compared by the relation the property '
        'states. Counter-example search; no reference model needed (the relation is the oracle).',
  note='Rescale not claimed for decentred lenses (paraxial pupil data are not scale covariant there, documented); '
       'Chebyshev surfaces carry the weakened relation of C07-chebyshev-normal; iterative surfaces compared at their '
       'absolute intersection tolerance.',
  design='3/C07'),
 'C06': dict(
  technique='Hypothesis-generated parameters of six closed-form stigmatic configurations; oracle = the analytically known '
            'image point, equal optical path, zero wavefront error and unit Strehl',
  level='For each generated configuration (up to 95% of its geometric aperture limit, f/0.6 included) every pupil ray '
        'must pass through the closed-form image point, all optical paths must be equal, Wavefront must report zero and '
        'FFTPSF a Strehl ratio of one; the per-surface law checker of C02 runs on the same traces. Counter-example search.',
  note='Virtual-image families use back-projected rays and skip the wavefront/PSF clauses; tolerances 1e-9 L, 1e-6 waves.',
  design='3/C06'),
 'C09': dict(
  technique='Hypothesis-generated imaging lenses x field x wavelength x pupil distribution; differential oracle: OPD '
            'recomputed from recorded ray points (own indices, own reference-sphere geometry, ABCD exit pupil)',
  level='Every sample of Wavefront.data is compared with (chief path - ray path)/lambda measured from a common '
        'object-space wavefront to the chief-ray reference sphere, for seven distributions, real and virtual exit pupils, '
        'image in air or glass; OPD maps, fans, RMS, RMS-vs-field, Zernike input and the OPD-difference operand are '
        'compared with the same quantity on their documented samples. Counter-example search.',
  note='Either whole-set branch of the sphere is accepted; bundles not enclosed by the reference sphere, afocal image '
       'space, finite-object angular fields and vignetted fields are outside the stated quantifier.',
  design='3/C09'),
 'C11': dict(
  technique='Hypothesis-generated imaging lenses x sampling/grid pairs (both paddings) x defocus/clipping; reference '
            'model: pupil rebuilt from the sampled wavefront, |DFT|^2 by an independent embedding and by the explicit DFT '
            'sum, zero-phase MTF bound, analytic circular-pupil MTF, line-spread transform of an independently traced spot',
  level='Every PSF pixel, the total energy, the Strehl ratio (central value, DC term, <= 1, = 1 for a stigmatic lens), every '
        'MTF sample (start, range, transform of the PSF, diffraction bound, analytic curve), the frequency axis and cut-off '
        'and the geometric MTF are compared with the reference model. Counter-example search.',
  note='Clipped pupils carry the weakened normalisation of C11-clipped-normalisation; frequency axis observed through '
       'view() under Agg; cut-off not judged for images formed in glass (F-number convention).',
  design='3/C11'),
 'C12': dict(
  technique='Hypothesis-generated imaging lenses x analysis class x argument combinations (field / wavelength lists that '
            'differ from the lens, counts, distortion types); differential oracle: the documented function recomputed from '
            'rays traced independently on a twin lens, Coddington equations, ABCD paraxial chief ray, drawn-curve read-back',
  level='Spot points/centroids/radii, ray fans, encircled energy (monotone, total), RMS-vs-field, distortion (both types, '
        'both field kinds), grid distortion, field curvature (Coddington), pupil aberration and the real-ray / spot-size '
        'operands are recomputed from independent traces for generated lenses and arguments. Counter-example search.',
  note='Independent rays come from the library tracer on a twin (C02 decides the tracer); centroid clauses judged when the '
       'reference wavelength is unambiguous; distortion judged when the paraxial scale is well conditioned.',
  design='3/C12'),
 'C14': dict(
  technique='Hypothesis-generated optimisation problems (lens x operand set x variable set x optimiser front end) run as '
            'the history optimise -> undo -> optimise, with a twin-lens differential oracle for the merit function and '
            'post-conditions on the returned result',
  level='For generated problems the merit function is recomputed from operand values on a twin lens, variables are checked '
        'as faithful handles (round trip, bounds in units of the value), and after every optimiser run the lens state is '
        'compared with result.x / result.fun, monotonicity, bounds and pickup relations; undo must restore the serialised '
        'lens. Counter-example search with small iteration budgets.',
  note='Worker-pool schedules of differential evolution are not enumerated (outcomes compared for 1, 2, all workers in the '
       'thorough tier); scipy ABNORMAL terminations are not judged on result.fun.',
  design='3/C14'),
 'C15': dict(
  technique='Hypothesis-generated tolerancing runs (lens x operands x perturbations/samplers x compensator x trials); '
            'differential oracle: every recorded row replayed on a fresh twin lens; history invariants on the lens state',
  level='Every row of the sensitivity / Monte-Carlo table is replayed on a twin built from the spec (recorded perturbation '
        'values applied, same compensation, operands evaluated); nominal-value perturbations must reproduce nominal '
        'operands, identically seeded set-ups identical tables, and the serialised lens must equal the nominal snapshot '
        'after run() and after reset(). Counter-example search.',
  note='Perturbation values are absolute values of unscaled variables; rows with undefined operands (ray failure) are '
       'compared as NaN == NaN; compensated rows at rtol 1e-6.',
  design='3/C15'),
}
