REPO_FIX_COMMITS = ['2d7a94d', '41c6b34', '15c99e7']
NOT_APPLICABLE = {}
CHECKS = {
 'C18': dict(
  technique='exhaustive enumeration of the 2593 catalogue rows + Hypothesis-generated wavelengths / look-ups / '
            'model glasses, against an independent evaluation of the refractiveindex.info formula sheet',
  level='Every catalogue row is evaluated at grid and generated wavelengths against a from-scratch implementation '
        'of the nine dispersion formulas and of linear table interpolation; every exact-name query (thorough) is '
        'looked up. Counter-example search with complete row coverage, not a proof over the wavelength continuum.',
  note='Trusts PyYAML and the CSV catalogue as the statement of what each row defines; ill-ordered tables are skipped '
       'inside their disordered span; model-glass bound calibrated on the pinned tree (see DESIGN 3/C18).',
  design='3/C18'),
 'C04': dict(
  technique='Hypothesis-generated prescriptions (and the 24 enumerated samples) compared with an independent ABCD '
            '(y, n*u) matrix reference; history-free differential oracle',
  level='Every first-order accessor and both paraxial ray arrays are compared with ray-transfer matrices built from '
        'the generated spec (curvatures, separations, indices from my own dispersion evaluation), for thousands of '
        'systems spread over mirror/stop/conjugate/aperture/field classes; plus invariant constancy and linearity. '
        'Counter-example search, not proof.',
  note='Conventions fixed in DESIGN 3/C04 (f2 vs n\'/phi etc.); three sign findings are weakened inside their regions '
       '(known_findings.json); conditioning guard for near-afocal systems.',
  design='3/C04'),
}
