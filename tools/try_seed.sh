#!/bin/bash
# tools/try_seed.sh <seeded-name> [PID] [seed]: applies one kept change to a scratch worktree and runs one quick check against
# it, with private output directories (does not touch evidence/ or replay/ of the real tree)
HERE="$(cd "$(dirname "${BASH_SOURCE[0]}")/.." && pwd)"; cd "$HERE" || exit 2
name="$1"; pid="${2:-$(python3 -c "import json;print(json.load(open('seeded/$name/meta.json'))['property'])")}"; seed="${3:-1}"
wt="/tmp/tryseed_${name}_$$"
git -C /repo worktree add -q --detach "$wt" HEAD || exit 2
git -C "$wt" apply "$HERE/seeded/$name/patch.diff" || { echo "$name: PATCH DOES NOT APPLY"; git -C /repo worktree remove --force "$wt"; exit 2; }
tmp="$(mktemp -d)"; cp -r vf tools run known_findings.json "$tmp"/; cp -r known_cases "$tmp"/ 2>/dev/null; mkdir -p "$tmp/evidence" "$tmp/replay" "$tmp/.cache"
ln -s "$HERE/.deps" "$tmp/.deps" 2>/dev/null
( cd "$tmp" && REPO_DIR="$wt" VERIF_WORKERS="${WORKERS:-6}" ./run "$pid" --tier "${TIER:-quick}" --seed "$seed" 2>&1 | grep -v "^KNOWN" | grep -E "VIOLATION|clause=|tier=|HARNESS|Traceback" | cut -c1-${CUT:-300} | head -${LINES_:-8}; echo "$name vs $pid: exit ${PIPESTATUS[0]}" )
rm -rf "$tmp"; git -C /repo worktree remove --force "$wt" >/dev/null 2>&1
