#!/usr/bin/env python3
"""tools/dedupe_seed.py <out_dir>: for change_k.diff in out_dir, reports an existing seeded/<name>/patch.diff with the same
set of changed lines (comments and blank lines ignored)."""
import glob, os, re, sys
HERE = os.path.dirname(os.path.dirname(os.path.abspath(__file__)))


def sig(path):
    out = []
    fn = ''
    for l in open(path, errors='replace'):
        if l.startswith('+++ '):
            fn = l[4:].strip()
        if l.startswith(('+++', '---')) or not l.startswith(('+', '-')):
            continue
        body = l[1:].strip()
        if not body or body.startswith('#'):
            continue
        out.append(fn + ':' + l[0] + re.sub(r'\s+', ' ', body))
    return frozenset(out)


old = {os.path.basename(os.path.dirname(p)): sig(p) for p in glob.glob(os.path.join(HERE, 'seeded', '*', 'patch.diff'))}
for p in sorted(glob.glob(os.path.join(sys.argv[1], 'change_*.diff'))):
    s = sig(p)
    same = [n for n, o in old.items() if o == s]
    near = [n for n, o in old.items() if o != s and len(s & o) >= 0.6 * max(len(s), len(o), 1)]
    print(os.path.basename(p), 'IDENTICAL to ' + ','.join(same) if same else ('similar to ' + ','.join(near) if near else 'new'))
