#!/bin/bash
# tools/seedtest.sh <PID> <patch.diff> [demo.py] [extra ./run args]
# Verifies a seeded change in a scratch worktree (never in /repo): the patch applies, the demo passes on the clean
# tree and fails with the patch, and reports what ./run <PID> --tier quick says with REPO_DIR pointing at the
# patched tree.  Optional: RUN_TESTS=1 also runs the repository test-suite on the patched tree.
set -u
PID="$1"; PATCH="$(readlink -f "$2")"; DEMO="${3:-}"; shift; shift; [ -n "$DEMO" ] && shift
HERE="$(cd "$(dirname "${BASH_SOURCE[0]}")/.." && pwd)"
WT="/tmp/seedtest_$$"
git -C /repo worktree add -q --detach "$WT" HEAD || exit 2
trap 'git -C /repo worktree remove --force "$WT" >/dev/null 2>&1; rm -rf "/tmp/nbc_$$"' EXIT
ENVV="PYTHONPATH=$WT MPLBACKEND=Agg NUMBA_CACHE_DIR=/tmp/nbc_$$"
if [ -n "$DEMO" ]; then
  ( cd /tmp && env $ENVV /venv/bin/python "$DEMO" >/tmp/seedtest_demo_clean_$$.log 2>&1 ); echo "demo on clean tree: exit $?"
fi
git -C "$WT" apply "$PATCH" || { echo "PATCH DOES NOT APPLY"; exit 2; }
if [ -n "$DEMO" ]; then
  ( cd /tmp && env $ENVV /venv/bin/python "$DEMO" >/tmp/seedtest_demo_patched_$$.log 2>&1 ); echo "demo on patched tree: exit $?"; tail -3 /tmp/seedtest_demo_patched_$$.log
fi
if [ "${RUN_TESTS:-0}" = "1" ]; then
  ( cd "$WT" && env $ENVV /venv/bin/python -m pytest -q -p no:cacheprovider -n 6 tests 2>&1 | tail -1 )
fi
( cd "$HERE" && REPO_DIR="$WT" ./run "$PID" --tier "${TIER:-quick}" "$@" 2>&1 | grep -v "^KNOWN" | tail -6 ); echo "check exit: ${PIPESTATUS[0]}"
rm -f /tmp/seedtest_demo_*_$$.log
