#!/usr/bin/env python3
"""Regenerates MANIFEST.json from the table below (keeps it valid at all times)."""
import json, os, sys
HERE = os.path.dirname(os.path.dirname(os.path.abspath(__file__)))
sys.path.insert(0, HERE)
from tools.manifest_table import CHECKS, NOT_APPLICABLE, REPO_FIX_COMMITS  # noqa

ALL = ['C%02d' % i for i in range(1, 21)]
BASE = ("cd /repo && /venv/bin/python -m pytest -ra -q -p no:cacheprovider --timeout=900 "
        "--continue-on-collection-errors")

checks = []
for pid, ent in sorted(CHECKS.items()):
    checks.append(dict(
        property_id=pid,
        quick_cmd='./run %s --tier quick' % pid,
        thorough_cmd='./run %s --tier thorough' % pid,
        evidence_file='evidence/%s.json' % pid,
        replay_cmd_template='./run %s --replay {path}' % pid,
        engine='vf',
        level_claimed=dict(category='exploration', text=ent['level'], design_ref=ent.get('design', '3')),
        level_note=ent['note'],
        technique=ent['technique'],
    ))
na = [dict(property_id=p, reason=NOT_APPLICABLE.get(p, 'check not built yet (work in progress); no claim is made'))
      for p in ALL if p not in CHECKS]
man = dict(
    version=1,
    setup_cmd='./setup.sh',
    hooks=dict(guard='OPTILAND_VERIF',
               enable='no hooks: every observation point is public state; checks import /repo\'s working tree directly '
                      '(./run puts /repo first on PYTHONPATH in a fresh interpreter)',
               baseline_off_cmd=BASE, source_commits=[], add_only=True),
    engines=[dict(name='vf', path='vf/', serves_properties=sorted(CHECKS),
                  kind_free_text='Hypothesis-driven property checks against independent reference oracles; '
                                 'forked shards; collect-then-shrink; JSON replay files')],
    checks=checks,
    not_applicable=na,
    notes='Unguarded repairs of genuine defects in /repo ("fix:" commits): %s. See known_findings.json and DESIGN.md.'
          % ', '.join(REPO_FIX_COMMITS),
)
with open(os.path.join(HERE, 'MANIFEST.json'), 'w') as f:
    json.dump(man, f, indent=1)
try:
    import jsonschema
    jsonschema.validate(man, json.load(open('/root/.vp/MANIFEST.schema.json')))
    print('MANIFEST.json valid;', len(checks), 'checks,', len(na), 'not claimed')
except ImportError:
    print('written (jsonschema not available for validation)')
