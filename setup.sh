#!/bin/bash
# setup_cmd: offline only.  Makes sure hypothesis is importable by /venv's python (it is pre-installed
# there; otherwise it is taken from the offline wheelhouse into /verif/.deps) and self-tests the imports.
HERE="$(cd "$(dirname "${BASH_SOURCE[0]}")" && pwd)"
cd "$HERE" || exit 2
export PIP_NO_INDEX=1
PY="${VERIF_PYTHON:-/venv/bin/python}"
mkdir -p .deps .cache evidence replay
if ! PYTHONPATH="$HERE/.deps" "$PY" -c "import hypothesis" 2>/dev/null; then
  "$PY" -m pip install --no-index --find-links /opt/veriftools/wheels --target "$HERE/.deps" hypothesis || exit 2
fi
# atheris (coverage-guided fuzzing for C20) is optional: the C20 thorough tier uses it when importable
if ! PYTHONPATH="$HERE/.deps" "$PY" -c "import atheris" 2>/dev/null; then
  "$PY" -m pip install --no-index --find-links /opt/veriftools/wheels --target "$HERE/.deps" atheris >/dev/null 2>&1 || echo "atheris not installable; C20 falls back to Hypothesis only"
fi
PYTHONPATH="/repo:$HERE:$HERE/.deps" MPLBACKEND=Agg "$PY" -c "import hypothesis, numpy, scipy, yaml, optiland.optic, vf.harness; print('setup ok: hypothesis', hypothesis.__version__)" || exit 2
