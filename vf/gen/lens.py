"""Hypothesis strategies producing LensSpec dictionaries (plain JSON-able data).

A LensSpec is built *by construction*: while the surfaces are drawn, paraxial marginal and
(pseudo-)chief rays are walked through the growing system so that radii, thicknesses and
aspheric terms are chosen relative to the local beam height h.  Afterwards aperture and
field are scaled down (deterministically) if the true marginal+chief heights from the ABCD
reference violate |R| >= rho_min*h.  No rejection / assume() is used.

LensSpec = {
  'obj': {'t': float | 'inf', 'n': float},
  'surfs': [ {'type','R','k','coef','norm','t','mat','dx','dy','rx','ry','ap','coat','stop'} ... ],   # surfaces 1..K
  'img': {'mat': {...}},                       # medium behind the image surface (default air)
  'ap': {'type','value'}, 'ftype': 'angle'|'object_height',
  'fields': [ {'y','vx','vy'} ], 'wls': [..um..], 'prim': index, 'tele': bool }
'mat': {'kind': 'air'|'ideal'|'glass'|'mirror', 'n', 'k', 'name', 'file'}
"""
import math

from hypothesis import strategies as st

from vf.ref import materials as RM
from vf.ref.paraxial import ParaxSys

INF = 'inf'

_GLASSES = None


def glasses():
    """Vetted catalogue glasses: unique exact name, dispersion formula, k table, range covers 0.4-0.8 um."""
    global _GLASSES
    if _GLASSES is None:
        rows = RM.catalogue_rows()
        names = {}
        cats = set()
        for r in rows:
            names[r['name'].lower()] = names.get(r['name'].lower(), 0) + 1
            cats.add(r['category_name'].lower())
        out = []
        for r in rows:
            if r['group'] != 'glass' or not r['filename'].startswith(('glass/schott/', 'glass/ohara/', 'glass/hoya/')):
                continue
            if names[r['name'].lower()] != 1 or r['name'].lower() in cats:
                continue
            if r['min_wavelength'] > 0.4 or r['max_wavelength'] < 0.8:
                continue
            e = RM.load_entry(r['filename'])
            if e['n_defs'] != 1 or not e['n_kind'].startswith('formula') or e['k_tab'] is None:
                continue
            out.append(dict(kind='glass', name=r['name'], file=r['filename']))
        # deterministic, spread over the list
        out = out[::max(1, len(out) // 40)][:40]
        _GLASSES = out
    return _GLASSES


AIR = dict(kind='air')
MIRROR = dict(kind='mirror')

_ENT = {}


def mat_index(mat, w, prev=None):
    """Reference refractive index of a spec medium at wavelength w (um)."""
    k = mat['kind']
    if k == 'air':
        return 1.0
    if k == 'ideal':
        return float(mat['n'])
    if k == 'glass':
        e = _ENT.get(mat['file'])
        if e is None:
            e = _ENT[mat['file']] = RM.load_entry(mat['file'])
        return float(RM.ref_n(e, w)[0])
    if k == 'mirror':
        return prev
    if k == 'abbe':
        return float(mat['n'])      # model glass: n_d only (used for labels, never as an oracle)
    raise ValueError(k)


def mat_k(mat, w, prev=None):
    k = mat['kind']
    if k == 'air':
        return 0.0
    if k == 'ideal':
        return float(mat.get('k', 0.0))
    if k == 'glass':
        e = _ENT.get(mat['file'])
        if e is None:
            e = _ENT[mat['file']] = RM.load_entry(mat['file'])
        return float(RM.ref_k(e, w)[0])
    if k == 'mirror':
        return prev
    if k == 'abbe':
        return 0.0
    raise ValueError(k)


def fl(x):
    return math.inf if x == INF else (-math.inf if x == '-inf' else float(x))


def media(spec, w):
    """(n_list, k_list) of the media after surfaces 0..K+1 at wavelength w (unsigned)."""
    om = spec['obj'].get('mat')           # optional: a (dispersive) medium of the object space instead of the number n
    ns = [mat_index(om, w) if om else float(spec['obj'].get('n', 1.0))]
    ks = [0.0]
    for s in spec['surfs']:
        ns.append(mat_index(s['mat'], w, ns[-1]))
        ks.append(mat_k(s['mat'], w, ks[-1]))
    im = spec['img'].get('mat', AIR)
    ns.append(mat_index(im, w, ns[-1]))
    ks.append(mat_k(im, w, ks[-1]))
    return ns, ks


def parax_sys(spec, w=None):
    if w is None:
        w = spec['wls'][spec['prim']]
    ns, _ = media(spec, w)
    ish = spec['img'].get('shape') or {}
    ci = 0.0 if ish.get('R', INF) == INF else 1.0 / float(ish['R'])
    c = [0.0 if s['R'] == INF else 1.0 / float(s['R']) for s in spec['surfs']] + [ci]
    t = [float(s['t']) for s in spec['surfs']]
    mirror = [s['mat']['kind'] == 'mirror' for s in spec['surfs']] + [False]
    stop = 1 + [i for i, s in enumerate(spec['surfs']) if s.get('stop')][0]
    return ParaxSys(c, t, ns, mirror, fl(spec['obj']['t']), stop)


def max_field(spec):
    """largest field magnitude (fields are non-negative unless the profile allows negative_fields)"""
    return max(abs(f['y']) for f in spec['fields'])


# ----------------------------------------------------------------------------

class Profile:
    def __init__(self, **kw):
        self.max_surfs = 8
        self.shapes = ['standard']
        self.allow_conic = True
        self.allow_finite = True
        self.allow_mirror = True
        self.allow_tilt = False
        self.allow_glass = True
        self.allow_absorb = False
        self.allow_apertures = False
        self.allow_coatings = False
        self.object_medium = False
        self.rho_min = 1.15
        self.steep_prob = 0.25
        self.keep_edges = False      # keep positive edge thickness (rays stay in order)
        self.ap_types = ['EPD', 'imageFNO', 'objectNA']
        self.allow_height_fields = True
        self.allow_vignetting = False
        self.image_refracts = False
        self.sym_coef_from = 1        # first even-asphere coefficient index allowed (0 = r^2 term)
        self.max_field_deg = 20.0
        self.max_n = 2.2
        self.zero_thickness = True
        self.positive_power = False
        self.negative_fields = False     # allow field values of either sign (max field = largest magnitude)
        self.unsorted_fields = False     # fields may be added in any order (not ascending)
        self.curved_image = False        # allow a spherical image surface
        self.__dict__.update(kw)


PROFILES = {
    # axially symmetric, any power, n0 != 1 allowed, mirrors, negative thickness after mirrors
    'paraxial': Profile(max_surfs=10, shapes=['standard', 'even_asphere'], object_medium=True, image_refracts=True,
                        max_n=4.0, negative_fields=True, unsorted_fields=True),
    # spheres and planes only (Seidel)
    'seidel': Profile(max_surfs=8, shapes=['standard'], allow_conic=False, image_refracts=False, negative_fields=True),
    # everything, for the per-surface law checks
    'real': Profile(max_surfs=10, shapes=['standard', 'standard', 'even_asphere', 'polynomial', 'chebyshev'],
                    allow_tilt=True, allow_absorb=True, keep_edges=True, sym_coef_from=0),
    # centred systems for real -> paraxial limits
    'centred': Profile(max_surfs=7, shapes=['standard', 'standard', 'even_asphere'], keep_edges=True, rho_min=1.5,
                       steep_prob=0.1, negative_fields=True, unsorted_fields=True, allow_vignetting=True),
    # intensity bookkeeping
    'intensity': Profile(max_surfs=8, shapes=['standard', 'standard', 'even_asphere'], allow_tilt=True,
                         allow_absorb=True, allow_apertures=True, allow_coatings=True, keep_edges=True),
    # scale_system(): planes and conics, angle fields
    'scalable': Profile(max_surfs=7, shapes=['standard'], allow_height_fields=False, keep_edges=True,
                        allow_apertures=True, rho_min=1.5, steep_prob=0.1),
    # well behaved imaging lenses (positive power, real image) for wavefront/PSF/analysis checks
    'imaging': Profile(max_surfs=6, shapes=['standard', 'standard', 'even_asphere'], allow_mirror=False,
                       keep_edges=True, rho_min=3.0, steep_prob=0.0, ap_types=['EPD', 'imageFNO'],
                       max_field_deg=8.0, allow_vignetting=False, max_n=2.0, zero_thickness=False, positive_power=True,
                       negative_fields=True),
}


def _sag(R, k, h):
    if R == INF or math.isinf(R):
        return 0.0
    a = 1 - (1 + k) * h * h / (R * R)
    if a <= 0:
        return math.copysign(abs(R), R)
    return h * h / (R * (1 + math.sqrt(a)))


@st.composite
def lens_spec(draw, profile='paraxial', min_surfs=1, max_surfs=None, force_infinite=None, force_finite=None):
    P = PROFILES[profile] if isinstance(profile, str) else profile
    K = draw(st.integers(min_surfs, max_surfs or P.max_surfs))
    f = st.floats
    finite = False
    if P.allow_finite and not force_infinite:
        finite = draw(st.booleans())
    if force_finite:
        finite = True
    t_obj = draw(f(5.0, 2000.0)) if finite else math.inf
    n0 = 1.0
    if P.object_medium and draw(st.integers(0, 4)) == 0:
        n0 = draw(f(1.0, 1.7))
    semi = draw(f(0.5, 15.0))
    fdeg = draw(f(0.0, P.max_field_deg))
    if fdeg < 1e-6:
        fdeg = 0.0        # fields whose squares underflow are "no field" written badly, not a configuration of interest
    use_height = finite and P.allow_height_fields and draw(st.booleans())
    if use_height:
        fval = t_obj * math.tan(math.radians(fdeg))
    else:
        fval = fdeg
    # walking rays
    if finite:
        y_m, u_m = semi, semi / t_obj
    else:
        y_m, u_m = semi, 0.0
    y_c, u_c = 0.0, math.tan(math.radians(fdeg))
    n_cur = n0
    parity = 1.0
    surfs = []
    gl = glasses()
    catadioptric = P.allow_mirror and draw(st.integers(0, 2)) == 0
    for k in range(K):
        h = min(max(abs(y_m) + abs(y_c), 0.2 * semi, 0.05), 40.0 * semi)
        shape = draw(st.sampled_from(P.shapes))
        s = dict(type=shape, R=INF, k=0.0, coef=None, norm=None, t=0.0, mat=AIR, dx=0.0, dy=0.0, rx=0.0, ry=0.0,
                 ap=None, coat=None, stop=False, hd=h)
        iterative = shape in ('even_asphere', 'polynomial', 'chebyshev')
        flat = (not iterative) and draw(st.integers(0, 5)) == 0
        if not flat:
            steep = draw(f(0.0, 1.0)) < P.steep_prob and not iterative
            rho = draw(f(P.rho_min, 1.6)) if steep else draw(f(max(2.0, P.rho_min), 50.0))
            if iterative:
                rho = max(rho, 3.0)
            sign = draw(st.sampled_from([1.0, -1.0]))
            kc = 0.0
            if P.allow_conic and draw(st.integers(0, 2)) == 0:
                # exact special conics matter (k = -1 takes the library's a == 0 branch for axial rays)
                kc = draw(st.one_of(f(-4.0, 2.0), st.sampled_from([-1.0, -1.0, -0.5, 0.5, -2.0])))
                if abs(1 + kc) < 1e-3:
                    # 0 < |1+k| << 1 is the degenerate corner of known finding C05-parabola-cancellation
                    # (a ~ 1e-16 in the conic quadratic); exact paraboloids take the library's a == 0 branch
                    kc = -1.0
            if kc > -1:
                rho = max(rho, 1.1 * math.sqrt(1 + kc))
            s['R'] = sign * rho * h
            s['k'] = kc
        # higher order terms
        if shape == 'even_asphere':
            nco = draw(st.integers(0, 4))
            co = []
            for i in range(nco):
                a = draw(f(-1.0, 1.0))
                if i < P.sym_coef_from:
                    a = 0.0
                co.append(a * 0.01 * h / h ** (2 * (i + 1)))
            s['coef'] = co
        elif shape == 'polynomial':
            nx, ny = draw(st.integers(1, 3)), draw(st.integers(1, 3))
            s['coef'] = [[draw(f(-1.0, 1.0)) * 0.005 * h / h ** max(i + j, 1) if (i + j) > 0 else 0.0
                          for j in range(ny)] for i in range(nx)]
        elif shape == 'chebyshev':
            nx, ny = draw(st.integers(1, 3)), draw(st.integers(1, 3))
            s['coef'] = [[draw(f(-1.0, 1.0)) * 0.003 * h if (i + j) > 0 else 0.0 for j in range(ny)]
                         for i in range(nx)]
            s['norm'] = draw(f(4.0, 10.0)) * h
        # medium behind the surface
        is_mirror = catadioptric and draw(st.integers(0, 3)) == 0
        if is_mirror:
            s['mat'] = MIRROR
        else:
            choice = draw(st.integers(0, 9))
            if n_cur == 1.0 or choice < 2:
                # into glass (or another glass: cemented)
                if P.allow_glass and choice % 3 == 0:
                    s['mat'] = dict(draw(st.sampled_from(gl)))
                else:
                    m = dict(kind='ideal', n=draw(f(1.3, P.max_n)), k=0.0)
                    if P.allow_absorb and draw(st.integers(0, 3)) == 0:
                        m['k'] = draw(st.sampled_from([1e-7, 1e-6, 1e-5, 1e-4]))
                    s['mat'] = m
            else:
                s['mat'] = AIR
        if P.allow_tilt and draw(st.integers(0, 3)) == 0:
            mode = draw(st.integers(0, 2))      # 0: tilt only, 1: decentre only, 2: both
            if mode != 0:
                s['dx'] = draw(f(-0.1, 0.1)) * h
                s['dy'] = draw(f(-0.1, 0.1)) * h
            if mode != 1:
                s['rx'] = draw(f(-0.1, 0.1))
                s['ry'] = draw(f(-0.1, 0.1))
        if P.allow_apertures and draw(st.integers(0, 2)) == 0:
            rmax = draw(f(0.5, 1.5)) * h
            rmin = draw(f(0.0, 0.4)) * h if draw(st.integers(0, 2)) == 0 else 0.0
            s['ap'] = dict(r_max=rmax, r_min=rmin)
        if P.allow_coatings and draw(st.integers(0, 3)) == 0:
            T = draw(f(0.0, 1.0))
            s['coat'] = dict(T=T, R=draw(f(0.0, 1.0 - T)) if draw(st.booleans()) else 1.0 - T)
        # paraxial update of the walking rays
        n_next = n_cur if is_mirror else mat_index(s['mat'], 0.55, n_cur)
        c = 0.0 if s['R'] == INF else 1.0 / s['R']
        if is_mirror:
            u_m = -u_m - 2 * y_m * c
            u_c = -u_c - 2 * y_c * c
            parity = -parity
        else:
            u_m = (n_cur * u_m - y_m * (n_next - n_cur) * c) / n_next
            u_c = (n_cur * u_c - y_c * (n_next - n_cur) * c) / n_next
        n_cur = n_next
        # thickness to the next surface (sign follows the propagation direction)
        tz = draw(f(0.0, 1.0))
        if P.zero_thickness and draw(st.integers(0, 9)) == 0:
            tabs = 0.0
        else:
            tabs = (0.05 + 4.0 * tz * tz) * h
        if P.keep_edges or not P.zero_thickness:
            sg = _sag(s['R'], s['k'], h) * parity
            tabs = max(tabs, 0.0) + max(sg, 0.0) + 0.05 * h
        if k == K - 1:
            # last gap: to the image surface; prefer near the marginal focus when there is one
            if abs(u_m) > 1e-6 and -y_m / u_m * parity > 0 and draw(st.integers(0, 3)) > 0:
                tabs = min(abs(y_m / u_m), 3e3) * draw(f(0.7, 1.2))
            else:
                tabs = max(tabs, 0.5 * h) * draw(f(1.0, 10.0))
        s['t'] = parity * tabs
        y_m = y_m + s['t'] * u_m
        y_c = y_c + s['t'] * u_c
        surfs.append(s)
    # edge repair: the next surface must not reach back across the previous one at the beam height
    if P.keep_edges:
        for k in range(1, K):
            a, b = surfs[k - 1], surfs[k]
            if b['R'] == INF:
                continue
            par = 1.0
            for q in surfs[:k]:
                if q['mat']['kind'] == 'mirror':
                    par = -par
            h = abs(b['R']) / 3.0
            gap = abs(a['t'])
            # sag of b towards the previous surface
            sb = -_sag(b['R'], b['k'], min(h, 0.9 * abs(b['R']))) * par
            sa = max(_sag(a['R'], a['k'], min(h, 0.9 * abs(fl(a['R']))) if a['R'] != INF else 0.0) * par, 0.0) \
                if a['R'] != INF else 0.0
            if sb + sa > 0.9 * gap:
                a['t'] = par * (sb + sa) / 0.9 + par * 0.01 * h
    stop = draw(st.integers(0, K - 1))
    surfs[stop]['stop'] = True
    img = dict(mat=AIR)
    if surfs[-1]['mat']['kind'] not in ('air',) and not (P.image_refracts and draw(st.booleans())):
        # image space medium continues behind the image surface (no refraction there)
        lastm = surfs[-1]['mat']
        if lastm['kind'] == 'mirror':
            # medium in front of the mirror
            j = K - 1
            while j >= 0 and surfs[j]['mat']['kind'] == 'mirror':
                j -= 1
            lastm = surfs[j]['mat'] if j >= 0 else (dict(kind='ideal', n=n0, k=0.0) if n0 != 1.0 else AIR)
        img = dict(mat=dict(lastm))
    nw = draw(st.integers(1, 4))
    wls = list(dict.fromkeys(round(draw(f(0.45, 0.70)), 6) for _ in range(nw)))      # distinct wavelengths
    nw = len(wls)
    prim = draw(st.integers(0, nw - 1))
    # fields
    nf = draw(st.integers(1, 4))
    fr = sorted({0.0 if i == 0 and draw(st.booleans()) else round(draw(f(0.0, 1.0)), 4) for i in range(nf)})
    if fval > 0 and draw(st.integers(0, 9)) > 0:
        fr = sorted(set(fr) | {1.0})
    fields = []
    for x in fr:
        fld = dict(y=x * fval, vx=0.0, vy=0.0)
        if P.allow_vignetting and draw(st.integers(0, 2)) == 0:
            fld['vx'] = round(draw(f(0.0, 0.3)), 3)
            fld['vy'] = round(draw(f(0.0, 0.3)), 3)
        fields.append(fld)
    if P.negative_fields and draw(st.integers(0, 1)) == 0:
        mode = draw(st.integers(0, 1))
        for i, fld in enumerate(fields):
            if mode == 0 or i % 2 == 0:
                fld['y'] = -fld['y'] if fld['y'] else 0.0
    if P.unsorted_fields and len(fields) >= 2 and draw(st.integers(0, 2)) == 0:
        fields = list(draw(st.permutations(fields)))
    if P.curved_image and draw(st.integers(0, 2)) == 0:
        hb = max(abs(y_m) + abs(y_c), semi)
        img['shape'] = dict(R=draw(st.sampled_from([1.0, -1.0])) * draw(f(4.0, 40.0)) * hb, k=0.0)
    ap_type = draw(st.sampled_from(P.ap_types))
    if ap_type == 'objectNA' and not finite:
        ap_type = 'EPD'
    spec = dict(obj=dict(t=(t_obj if finite else INF), n=n0), surfs=surfs, img=img,
                ap=dict(type='EPD', value=2 * semi), ftype='object_height' if use_height else 'angle',
                fields=fields, wls=wls, prim=prim, tele=False)
    if getattr(P, 'positive_power', False):
        spec = make_imaging(spec, draw(f(0.9, 1.05)) if draw(st.integers(0, 3)) == 0 else 1.0)
    spec = fit_beam(spec, P.rho_min)
    spec = set_aperture_kind(spec, ap_type)
    return spec


def make_imaging(spec, focus_factor=1.0):
    """Deterministic repair towards a lens that forms a real image near its image surface: if the power is negative all
    curvatures (and aspheric terms) change sign; the last gap is set to focus_factor x the paraxial back focal distance
    when that is positive."""
    try:
        ps = parax_sys(spec)
        if ps.power() < 0:
            for s in spec['surfs']:
                if s['R'] != INF:
                    s['R'] = -s['R']
                if s['type'] == 'even_asphere' and s['coef']:
                    s['coef'] = [-c for c in s['coef']]
            ps = parax_sys(spec)
        ya, ua = ps.marginal(spec['ap']['type'], spec['ap']['value'])
        K = len(spec['surfs'])
        u = ua[K - 1]
        if math.isfinite(u) and abs(u) > 1e-9:
            bfd = -ya[K - 1] / u
            if math.isfinite(bfd) and 1e-3 < bfd < 1e4:
                spec['surfs'][-1]['t'] = float(bfd * focus_factor)
    except (ZeroDivisionError, OverflowError, ValueError, IndexError):
        pass
    return spec


def remote_stop(spec, u, rho_min=2.5):
    """Variant of an infinite-conjugate imaging lens whose stop is a plane in air far in front of it (1.15 .. 3.15 front
    focal lengths): the exit pupil then lies beyond the image surface (telecentric-like layouts), a class the plain
    generator almost never reaches.  Deterministic in (spec, u); aperture and field are re-fitted to the new beam."""
    import copy
    if spec['obj']['t'] != INF or spec['ap']['type'] != 'EPD':
        return spec
    try:
        f = float(parax_sys(spec).f2())
    except (ZeroDivisionError, OverflowError, ValueError):
        return spec
    if not (math.isfinite(f) and 1e-2 < abs(f) < 1e4):
        return spec
    t = copy.deepcopy(spec)
    for q in t['surfs']:
        q['stop'] = False
    semi = 0.5 * t['ap']['value']
    t['surfs'].insert(0, dict(type='standard', R=INF, k=0.0, coef=None, norm=None, t=round((1.15 + 2.0 * u) * abs(f), 6),
                              mat={'kind': 'air'}, dx=0.0, dy=0.0, rx=0.0, ry=0.0, ap=None, coat=None, stop=True, hd=semi))
    for fd in t['fields']:
        fd['y'] = fd['y'] * 0.5
    t = fit_beam(t, rho_min, rounds=4)
    return make_imaging(t)


def beam_heights(spec):
    ps = parax_sys(spec)
    ya, _ = ps.marginal(spec['ap']['type'], spec['ap']['value'])
    mf = max_field(spec)
    if mf > 0:
        yb, _ = ps.chief(spec['ftype'], mf)
    else:
        yb = [0.0] * len(ya)
    return [abs(a) + abs(b) for a, b in zip(ya, yb)]


def fit_beam(spec, rho_min, rounds=3):
    """Scale EPD and field down until |R| >= rho_min * h (and the conic stays real) on every surface."""
    for _ in range(rounds):
        try:
            hs = beam_heights(spec)
        except (ZeroDivisionError, FloatingPointError, ValueError, OverflowError):
            break
        fac = 1.0
        for s, h in zip(spec['surfs'], hs):
            if not math.isfinite(h):
                fac = min(fac, 0.5)
                continue
            lim = math.inf
            if s['R'] != INF:
                lim = abs(s['R']) / rho_min
                if s['k'] > -1:
                    lim = min(lim, abs(s['R']) / (1.1 * math.sqrt(1 + s['k'])))
            if s.get('norm'):
                lim = min(lim, s['norm'] / 2.5)
            if s['type'] != 'standard' and s.get('hd'):
                # higher-order terms were sized for the design height hd
                lim = min(lim, 1.25 * s['hd'])
            if h > lim:
                fac = min(fac, lim / h)
        if fac >= 1.0:
            break
        fac *= 0.95
        spec['ap']['value'] *= fac
        for fd in spec['fields']:
            fd['y'] *= fac
    return spec


def set_aperture_kind(spec, ap_type):
    """Re-express the EPD aperture of the spec as imageFNO / objectNA with the same pupil diameter."""
    if ap_type == 'EPD':
        return spec
    ps = parax_sys(spec)
    epd = spec['ap']['value']
    try:
        if ap_type == 'imageFNO':
            f2 = ps.f2()
            if not math.isfinite(f2) or abs(ps.power()) * epd < 1e-3:
                return spec
            spec['ap'] = dict(type='imageFNO', value=abs(f2) / epd)
        elif ap_type == 'objectNA':
            z = ps.EPL() + ps.t_obj
            if not math.isfinite(z) or abs(z) < 1e-6:
                return spec
            na = ps.n_abs[0] * math.sin(math.atan(epd / (2 * abs(z))))
            if not (0 < na < 0.9 * ps.n_abs[0]):
                return spec
            spec['ap'] = dict(type='objectNA', value=na)
    except (ZeroDivisionError, OverflowError, ValueError):
        return spec
    return spec


def spec_classes(spec):
    """Labels used in class histograms."""
    labs = set()
    surfs = spec['surfs']
    K = len(surfs)
    labs.add('K%d' % K if K <= 3 else ('K4-6' if K <= 6 else 'K7+'))
    nm = sum(1 for s in surfs if s['mat']['kind'] == 'mirror')
    if nm:
        labs.add('mirror')
        labs.add('odd_mirrors' if nm % 2 else 'even_mirrors')
    stop = [i for i, s in enumerate(surfs) if s.get('stop')][0]
    labs.add('stop_first' if stop == 0 else ('stop_last' if stop == K - 1 else 'stop_interior'))
    labs.add('finite_object' if spec['obj']['t'] != INF else 'infinite_object')
    labs.add('ap_' + spec['ap']['type'])
    labs.add('field_' + spec['ftype'])
    if any(s['rx'] or s['ry'] for s in surfs):
        labs.add('tilted')
    if any(s['dx'] or s['dy'] for s in surfs):
        labs.add('decentred')
    for s in surfs:
        labs.add('shape_' + ('plane' if s['R'] == INF and s['type'] == 'standard' else
                             ('conic' if s['type'] == 'standard' and s['k'] != 0 else
                              ('sphere' if s['type'] == 'standard' else s['type']))))
        if s['mat']['kind'] == 'glass':
            labs.add('catalogue_glass')
        if s['mat'].get('k'):
            labs.add('absorbing')
        if s['ap']:
            labs.add('phys_aperture')
        if s['coat']:
            labs.add('coating')
    if spec['obj'].get('n', 1.0) != 1.0:
        labs.add('object_medium')
    if spec['img']['mat']['kind'] != 'air':
        labs.add('image_medium')
    if spec['img'].get('shape'):
        labs.add('curved_image')
    if any(fd['y'] < 0 for fd in spec['fields']):
        labs.add('negative_field')
    ys_ = [fd['y'] for fd in spec['fields']]
    if ys_ != sorted(ys_):
        labs.add('fields_not_ascending')
    ns, _ = media(spec, spec['wls'][spec['prim']])
    if ns[-1] != ns[-2]:
        labs.add('image_refracts')
    if any(f['vx'] or f['vy'] for f in spec['fields']):
        labs.add('vignetting')
    if len(spec['wls']) > 1:
        labs.add('polychromatic')
    return labs
