"""One generated edit of a built lens through the public setters, mirrored on the LensSpec.

Used by checks that decide a property of a *function of the current lens*: the same Optic object is queried, edited and
queried again, and the second answer is compared with the reference for the edited prescription (stale caches, memoised
intermediate results and aliasing between surfaces only show in such histories).
"""
import copy
import math

from hypothesis import strategies as st

from vf.gen import lens as GL
from vf.gen.simple import glass

sel = st.integers(0, 1000)
KINDS = ('index', 'radius', 'thickness', 'stop', 'conic')
ALL_KINDS = KINDS + ('tilt', 'decenter')
WITH_SCALE = ALL_KINDS + ('scale',)


def edit_strategy(kinds=KINDS, p_none=1):
    # reload: the lens is first taken through to_dict() / from_dict() (a lens that was loaded, not built: its materials and
    # coatings are separate objects per surface), then edited
    one = st.fixed_dictionaries(dict(kind=st.sampled_from(list(kinds)), s=sel, f=st.floats(0.8, 1.25),
                                     reload=st.sampled_from([False, False, True])))
    from vf.gen.util import weighted
    return weighted((p_none, st.none()), (2, one))


def maybe_reload(o, ed):
    """the same lens after a dictionary round trip when the edit record asks for it"""
    if ed and ed.get('reload'):
        from optiland.optic import Optic
        return Optic.from_dict(o.to_dict())
    return o


def apply_edit(o, spec, ed, keep_image_medium=False):
    """Applies `ed` to the Optic `o` and returns the edited deep copy of `spec`, or None when the edit does not apply to
    this lens (nothing is changed then)."""
    s2 = copy.deepcopy(spec)
    S = s2['surfs']
    K = len(S)
    kind, f = ed['kind'], float(ed['f'])
    is_m = [q['mat']['kind'] == 'mirror' for q in S]
    if kind == 'index':
        # the medium behind surface k; not next to a mirror (a mirror would get different media on its two sides)
        hi = K - 1 if keep_image_medium else K
        cand = [k for k in range(1, hi + 1) if not is_m[k - 1] and not (k < K and is_m[k])]
        if not cand:
            return None
        k = cand[ed['s'] % len(cand)]
        n_new = round(1.3 + 0.6 * (f - 0.8) / 0.45, 6)
        if (ed['s'] // 7) % 2:
            # the other public handle on an index: the optimisation / tolerancing variable
            from optiland.optimization.variable.variable import Variable
            Variable(o, 'index', surface_number=k, wavelength=float(o.primary_wavelength), apply_scaling=False).update(n_new)
        else:
            o.set_index(n_new, k)
        S[k - 1]['mat'] = glass(n_new)
        return s2
    if kind == 'radius':
        cand = [k for k in range(1, K + 1) if S[k - 1]['R'] != GL.INF]
        if not cand or f == 1.0:
            return None
        k = cand[ed['s'] % len(cand)]
        S[k - 1]['R'] = S[k - 1]['R'] * f
        o.set_radius(S[k - 1]['R'], k)
        return s2
    if kind == 'conic':
        cand = [k for k in range(1, K + 1) if S[k - 1]['R'] != GL.INF and S[k - 1]['type'] in ('standard', 'even_asphere')]
        if not cand:
            return None
        k = cand[ed['s'] % len(cand)]
        S[k - 1]['k'] = round(S[k - 1]['k'] + (f - 1.0), 6)
        o.set_conic(S[k - 1]['k'], k)
        return s2
    if kind == 'thickness':
        cand = [k for k in range(1, K + 1) if S[k - 1]['t'] != 0 and math.isfinite(S[k - 1]['t'])]
        if not cand or f == 1.0:
            return None
        k = cand[ed['s'] % len(cand)]
        S[k - 1]['t'] = S[k - 1]['t'] * f
        o.set_thickness(S[k - 1]['t'], k)
        return s2
    if kind in ('tilt', 'decenter'):
        # through the optimisation variable, the public handle for these two quantities
        from optiland.optimization.variable.variable import Variable
        cand = [k for k in range(1, K + 1) if not is_m[k - 1] or True]
        k = cand[ed['s'] % len(cand)]
        axis = 'x' if ed['s'] % 2 == 0 else 'y'
        key = ('r' if kind == 'tilt' else 'd') + axis
        S[k - 1][key] = round(S[k - 1][key] + (f - 1.0) * (0.2 if kind == 'tilt' else 0.5 * float(S[k - 1].get('hd') or 1.0)), 9)
        if S[k - 1][key] == spec['surfs'][k - 1][key]:
            return None
        Variable(o, kind, surface_number=k, axis=axis, apply_scaling=False).update(S[k - 1][key])
        return s2
    if kind == 'scale':
        # Optic.scale_system(): planes and conics, angular fields (what the library's method handles)
        if any(q['type'] != 'standard' or q['dx'] or q['dy'] for q in S) or spec['ftype'] != 'angle' or \
                spec['img'].get('shape'):
            return None            # (the method rescales radii, thicknesses, EPD and apertures: not decentres or coefficients)
        sc = round(f ** 4, 6)
        if sc == 1.0:
            return None
        o.scale_system(sc)
        return scaled_spec(spec, sc)
    if kind == 'stop':
        cur = [i for i, q in enumerate(S) if q['stop']]
        cand = [i for i in range(K) if i not in cur]
        if not cand or len(cur) != 1:
            return None
        j = cand[ed['s'] % len(cand)]
        sg = o.surface_group
        sg.surfaces[cur[0] + 1].is_stop = False
        sg.surfaces[j + 1].is_stop = True
        S[cur[0]]['stop'] = False
        S[j]['stop'] = True
        return s2
    return None


def build_with_history(spec, ed, warm=None, build_fn=None, **kw):
    """Builds the lens of `spec`; with an edit, queries it first (`warm(o)`: whatever fills the library's caches), then
    applies the edit to the same Optic.  Returns (optic, spec the optic now realises, edited?).  The caller judges the
    optic against the returned spec only."""
    from vf.gen.build import build
    o = (build_fn or build)(spec)
    if not ed:
        return o, spec, False
    if warm is not None:
        try:
            warm(o)
        except Exception:  # noqa  (whatever the warm-up query does on this lens is judged elsewhere)
            pass
    o = maybe_reload(o, ed)
    s2 = apply_edit(o, spec, ed, **kw)
    if s2 is None:
        return o, spec, False
    return o, s2, True


def warm_all(o):
    """queries that touch the paraxial, real-ray and aberration code paths once"""
    import numpy as np
    w = o.primary_wavelength
    P = o.paraxial
    P.f2(), P.F1(), P.EPL(), P.EPD(), P.XPL(), P.XPD(), P.magnification(), P.invariant()
    P.marginal_ray(), P.chief_ray()
    f = o.fields.get_field_coords()[-1]
    o.trace(f[0], f[1], w, 2, 'hexapolar')
    o.trace_generic(np.zeros(2), np.array([0.0, 1.0]), np.zeros(2), np.array([0.5, 0.0]), w)
    o.aberrations.seidels()


def scaled_spec(spec, s):
    """the prescription with every length multiplied by s"""
    t = copy.deepcopy(spec)
    if t['obj']['t'] != GL.INF:
        t['obj']['t'] = t['obj']['t'] * s
    for q in t['surfs']:
        if q['R'] != GL.INF:
            q['R'] = q['R'] * s
        q['t'] = q['t'] * s
        q['dx'] *= s
        q['dy'] *= s
        if q.get('hd'):
            q['hd'] *= s
        if q['type'] == 'even_asphere' and q['coef']:
            q['coef'] = [c * s ** (1 - 2 * (i + 1)) for i, c in enumerate(q['coef'])]
        elif q['type'] == 'polynomial' and q['coef']:
            q['coef'] = [[c * s ** (1 - i - j) for j, c in enumerate(row)] for i, row in enumerate(q['coef'])]
        elif q['type'] == 'chebyshev' and q['coef']:
            q['coef'] = [[c * s for c in row] for row in q['coef']]
            q['norm'] = q['norm'] * s
        if q['ap']:
            q['ap'] = dict(r_max=q['ap']['r_max'] * s, r_min=q['ap'].get('r_min', 0.0) * s)
    if t['ap']['type'] == 'EPD':
        t['ap']['value'] *= s
    if t['ftype'] == 'object_height':
        for fd in t['fields']:
            fd['y'] *= s
    return t
