"""The 24 bundled sample designs, enumerated; and read-back of a built lens as a reference system."""
import contextlib
import importlib
import inspect
import io
import math

import numpy as np

from vf.ref.paraxial import ParaxSys

_MODS = ['simple', 'objectives', 'eyepieces', 'infrared', 'lithography', 'microscopes', 'telescopes']


def sample_names():
    from optiland.optic import Optic
    out = []
    for m in _MODS:
        mod = importlib.import_module('optiland.samples.' + m)
        for n, c in inspect.getmembers(mod, inspect.isclass):
            if issubclass(c, Optic) and c is not Optic and c.__module__ == mod.__name__:
                out.append('%s.%s' % (m, n))
    return sorted(out)


def make_sample(name):
    m, n = name.split('.')
    mod = importlib.import_module('optiland.samples.' + m)
    with contextlib.redirect_stdout(io.StringIO()):
        return getattr(mod, n)()


def parax_from_optic(o, w=None):
    """Reference system from the prescription read back through public attributes
    (radius, vertex z, media indices).  Weaker than a spec-based reference (it trusts the
    stored prescription and the media objects) - used for the bundled samples only."""
    if w is None:
        w = o.primary_wavelength
    sg = o.surface_group
    surfs = sg.surfaces
    z = [float(np.ravel(s.geometry.cs.z)[0]) for s in surfs]
    c = []
    for s in surfs[1:]:
        R = float(s.geometry.radius)
        c.append(0.0 if math.isinf(R) else 1.0 / R)
    t = [z[i + 1] - z[i] for i in range(1, len(surfs) - 1)]
    n = [float(np.ravel(s.material_post.n(w))[0]) for s in surfs]
    mirror = [bool(s.is_reflective) for s in surfs[1:]]
    t_obj = math.inf if math.isinf(z[0]) else z[1] - z[0]
    return ParaxSys(c, t, n, mirror, t_obj, sg.stop_index)
