"""LensSpec -> optiland.Optic, through the public API only (add_surface in index order ...)."""
import contextlib
import io
import math

import numpy as np

from vf.gen.lens import INF, fl

_MATS = {}


def quiet(fn, *a, **k):
    with contextlib.redirect_stdout(io.StringIO()):
        return fn(*a, **k)


def lib_material(mat, cache=True):
    """Material argument for add_surface()."""
    from optiland.materials import IdealMaterial, Material
    k = mat['kind']
    if k == 'air':
        return 'air'
    if k == 'mirror':
        return 'mirror'
    if k == 'ideal':
        return IdealMaterial(n=float(mat['n']), k=float(mat.get('k', 0.0)))
    if k == 'abbe':
        from optiland.materials import AbbeMaterial
        return AbbeMaterial(float(mat['n']), float(mat['v']))
    if k == 'glass':
        if not cache:
            return quiet(Material, mat['name'])
        m = _MATS.get(mat['name'])
        if m is None:
            m = _MATS[mat['name']] = quiet(Material, mat['name'])
        return m
    raise ValueError(k)


INF_ = float('inf')


def _as_int(v, ints):
    """whole-number values as Python ints when asked for (the API accepts them; types then travel through the lens)"""
    return int(v) if ints and isinstance(v, float) and math.isfinite(v) and v == int(v) else v


def surface_kwargs(s, ints=False):
    from optiland.physical_apertures import RadialAperture
    from optiland.coatings import SimpleCoating
    kw = {}
    typ = s['type']
    R = fl(s['R'])
    if typ == 'standard':
        kw['radius'] = _as_int(R, ints)
        if s['k'] or (ints and R != INF_):
            kw['conic'] = _as_int(s['k'], ints)
    else:
        kw['radius'] = _as_int(R, ints)
        kw['conic'] = _as_int(s['k'], ints)
        if typ == 'even_asphere':
            kw['coefficients'] = list(s['coef'] or [])
        else:
            kw['coefficients'] = [list(r) for r in (s['coef'] or [[0.0]])]
        if typ == 'chebyshev':
            kw['norm_x'] = s['norm']
            kw['norm_y'] = s.get('norm_y', s['norm'])
        if s.get('tol') is not None:
            kw['tol'] = s['tol']
    for key in ('dx', 'dy', 'rx', 'ry'):
        if s.get(key):
            kw[key] = s[key]
    if s.get('ap'):
        kw['aperture'] = RadialAperture(r_max=s['ap']['r_max'], r_min=s['ap'].get('r_min', 0.0))
    if s.get('bsdf'):
        from optiland.scatter import LambertianBSDF, GaussianBSDF
        kw['bsdf'] = LambertianBSDF() if s['bsdf'] == 'lambertian' else GaussianBSDF(sigma=float(s['bsdf']))
    if s.get('coat'):
        if s['coat'] == 'fresnel':
            kw['coating'] = 'fresnel'
        else:
            kw['coating'] = SimpleCoating(transmittance=s['coat']['T'], reflectance=s['coat']['R'])
    return kw


def used_optic():
    """an Optic that already held, and was asked about, a different lens (finite object, stop on the third surface,
    tilted element, pickup): what `build(spec, optic=...)` resets and re-uses"""
    from optiland.optic import Optic
    from optiland.materials import IdealMaterial
    o = Optic()
    o.add_surface(index=0, radius=np.inf, thickness=80.0)
    o.add_surface(index=1, radius=35.0, thickness=4.0, material=IdealMaterial(n=1.52, k=0.0))
    o.add_surface(index=2, radius=-50.0, thickness=6.0)
    o.add_surface(index=3, radius=np.inf, thickness=3.0, is_stop=True, rx=0.02)
    o.add_surface(index=4, radius=-28.0, thickness=2.5, material=IdealMaterial(n=1.8, k=0.0))
    o.add_surface(index=5, radius=-50.0, thickness=60.0)
    o.add_surface(index=6)
    o.set_aperture(aperture_type='objectNA', value=0.05)
    o.set_field_type(field_type='object_height')
    o.add_field(y=0.0)
    o.add_field(y=-7.0)
    o.add_wavelength(value=0.48)
    o.add_wavelength(value=0.62, is_primary=True)
    o.pickups.add(1, 'radius', 5, scale=-1.0, offset=0.0)
    o.update()
    P = o.paraxial
    P.f2(), P.EPL(), P.EPD(), P.XPL(), P.chief_ray(), P.marginal_ray()
    o.trace(0.0, 1.0, 0.62, 2, 'hexapolar')
    o.aberrations.seidels()
    return o


def build(spec, cache_materials=True, with_settings=True, optic=None, ints=False):
    from optiland.optic import Optic
    from optiland.materials import IdealMaterial
    if optic is None:
        o = Optic()
    else:
        o = optic
        o.reset()          # documented: back to the initial (empty) state
    t_obj = fl(spec['obj']['t'])
    n0 = float(spec['obj'].get('n', 1.0))
    if spec['obj'].get('mat'):
        o.add_surface(index=0, radius=np.inf, thickness=t_obj, material=lib_material(spec['obj']['mat'], cache_materials))
    elif n0 != 1.0:
        o.add_surface(index=0, radius=np.inf, thickness=t_obj, material=IdealMaterial(n=n0, k=0.0))
    else:
        o.add_surface(index=0, radius=np.inf, thickness=t_obj)
    for i, s in enumerate(spec['surfs']):
        kw = surface_kwargs(s, ints)
        o.add_surface(index=i + 1, surface_type=s['type'], thickness=_as_int(float(s['t']), ints),
                      material=lib_material(s['mat'], cache_materials), is_stop=bool(s.get('stop')), **kw)
    K = len(spec['surfs'])
    im = spec['img'].get('mat', {'kind': 'air'})
    ish = spec['img'].get('shape')
    if ish:
        o.add_surface(index=K + 1, material=lib_material(im, cache_materials), radius=float(ish['R']),
                      conic=float(ish.get('k', 0.0)))
    else:
        o.add_surface(index=K + 1, material=lib_material(im, cache_materials))
    if with_settings:
        apply_settings(o, spec)
    return o


def apply_settings(o, spec):
    o.set_aperture(aperture_type=spec['ap']['type'], value=spec['ap']['value'])
    o.set_field_type(field_type=spec['ftype'])
    for f in spec['fields']:
        o.add_field(y=f['y'], vx=f.get('vx', 0.0), vy=f.get('vy', 0.0))
    for i, w in enumerate(spec['wls']):
        o.add_wavelength(value=w, is_primary=(i == spec['prim']))
    if spec.get('tele'):
        o.obj_space_telecentric = True
    return o
