"""Small strategy helpers."""
from hypothesis import strategies as st


def weighted(*pairs):
    """weighted((3, a), (1, b)): a three times as often as b.  (st.one_of(a, a, a, b) does NOT do this: one_of removes
    duplicate branches, so it chooses a and b equally often.)"""
    table = []
    for w, s in pairs:
        table += [s] * int(w)
    return st.integers(0, len(table) - 1).flatmap(lambda i: table[i])
