"""Hand-written LensSpec helpers (used by closed-form checks and by tools/mk_known.py)."""
AIR = {'kind': 'air'}
MIRROR = {'kind': 'mirror'}


def glass(n, k=0.0):
    return {'kind': 'ideal', 'n': n, 'k': k}


def surf(R='inf', t=0.0, mat=AIR, k=0.0, stop=False, type='standard', coef=None, **kw):
    s = dict(type=type, R=R, k=k, coef=coef, norm=None, t=t, mat=mat, dx=0.0, dy=0.0, rx=0.0, ry=0.0, ap=None,
             coat=None, stop=stop)
    s.update(kw)
    return s


def spec(surfs, t_obj='inf', n0=1.0, ap=('EPD', 10.0), ftype='angle', fields=(0.0, 5.0), wls=(0.55,), prim=0,
         img=AIR, tele=False):
    return dict(obj=dict(t=t_obj, n=n0), surfs=surfs, img=dict(mat=img), ap=dict(type=ap[0], value=ap[1]),
                ftype=ftype, fields=[dict(y=y, vx=0.0, vy=0.0) for y in fields], wls=list(wls), prim=prim, tele=tele)
