"""Known findings: read-only at run time.

known_findings.json = {"findings": [ {property, id, status: open|fixed, clause, what, region,
                                     weakened_relation, reproducer, commit?} ]}

An *open* finding only weakens a clause inside its region when its reproducer
still fails at full strength in this very run (`confirm`), so a repaired tree is
automatically checked at full strength and a weakened relation can never turn
into a false alarm on correct code.
"""
import json
import os

HERE = os.path.dirname(os.path.dirname(os.path.abspath(__file__)))
PATH = os.path.join(HERE, 'known_findings.json')


class Known:
    def __init__(self, pid):
        self.pid = pid
        self._entries = []
        self._confirmed = set()
        if os.path.exists(PATH):
            with open(PATH) as f:
                data = json.load(f)
            self._entries = [e for e in data.get('findings', []) if e.get('property') == pid]

    def entries(self):
        return list(self._entries)

    def confirm(self, kf_id):
        self._confirmed.add(kf_id)

    def is_open(self, kf_id):
        return kf_id in self._confirmed
