"""C08 - Seidel and first-order chromatic terms equal the classical surface formulas."""
import copy
import math

import numpy as np
from hypothesis import strategies as st

from vf.harness import Check
from vf.gen import lens as GL
from vf.gen.build import build
from vf.gen import samples as GS
from vf.gen.edit import edit_strategy, apply_edit, maybe_reload
from vf.ref import seidel as RS

NAMES = ['TSC', 'SC', 'CC', 'TCC', 'TAC', 'AC', 'TPC', 'PC', 'DC', 'TAchC', 'LchC', 'TchC', 'S']
WF, WC = 0.4861, 0.6563


class C08(Check):
    pid = 'C08'
    title = 'Seidel and first-order chromatic terms equal the classical surface formulas'
    rule = ('cases: generated prescriptions of spheres and planes (profile "seidel": refracting + reflecting, ideal and '
            'dispersive catalogue media, any stop, finite/infinite object, every aperture/field kind), optionally followed '
            'by one edit of the same Optic (index / radius / thickness / stop moved) and a second evaluation of every term; '
            '+ the 24 samples. '
            'Oracle, two routes: Smith\'s per-surface formulas fed with the ABCD reference rays and my own n(F), n(C); '
            'Welford\'s sums from the refraction invariants (library sums = -S_W). Identities on the returned families; '
            'stop-shift invariance of S_I and S_IV (metamorphic twin lens); small-aperture limit of the real marginal ray '
            'error against sum(TSC). Non-trivial: >=3 powered surfaces, stop not on surface 1, non-zero field. '
            'Distinct = distinct spec hashes.')
    assumptions = ['library sign convention: third_order() per-surface terms as in Smith ch. 6.3, S = -2 n\'u\' sum(...)',
                   'near-afocal systems (|n\'u\'| tiny) and zero Lagrange invariant are counted, not judged (terms divide '
                   'by them)',
                   'samples: reference from the prescription read back through public attributes',
                   'colour lines F = 0.4861 um, C = 0.6563 um as the library documents']

    def budget(self, tier):
        return (150, 8) if tier == 'quick' else (3000, 16)

    def strategy(self, tier):
        return st.fixed_dictionaries(dict(kind=st.just('spec'), spec=GL.lens_spec('seidel'),
                                          edit=edit_strategy(('index', 'radius', 'thickness', 'stop', 'stop'))))

    def fixed_cases(self, tier):
        return [dict(kind='sample', name=n) for n in GS.sample_names()]

    def describe(self, case):
        if case['kind'] == 'sample':
            return case
        s = case['spec']
        return dict(kind='spec', obj=s['obj'], ap=s['ap'], ftype=s['ftype'], fields=[f['y'] for f in s['fields']],
                    surfs=[dict(R=q['R'], t=q['t'], mat=q['mat'], stop=q['stop']) for q in s['surfs']])

    def check(self, case, out):
        if case['kind'] == 'sample':
            self.core(case, out, GS.make_sample(case['name']), None)
            return
        spec = case['spec']
        out.cls(*GL.spec_classes(spec))
        o = build(spec)
        self.core(case, out, o, spec)
        ed = case.get('edit')
        if ed:
            # history on one Optic (and its one Aberrations object): all terms, one edit, all terms again
            o = maybe_reload(o, ed)
            spec2 = apply_edit(o, spec, ed)
            if spec2 is not None:
                out.cls('recomputed_after_' + ed['kind'] + '_edit')
                self.core(case, out, o, spec2)

    def core(self, case, out, o, spec):
        if case['kind'] == 'sample':
            out.cls('sample')
            ps = GS.parax_from_optic(o)
            at, av = o.aperture.ap_type, o.aperture.value
            ftype, mf = o.field_type, float(o.fields.max_y_field)
            S_ = o.surface_group.surfaces
            nF = [float(np.ravel(s.material_post.n(WF))[0]) for s in S_]
            nC = [float(np.ravel(s.material_post.n(WC))[0]) for s in S_]
            if any(type(s.geometry).__name__ not in ('Plane', 'StandardGeometry') or getattr(s.geometry, 'k', 0.0) != 0
                   for s in S_[1:-1]):
                out.cls('sample_with_conic_or_asphere')      # outside the property's "conic-free" quantifier
                return
            spec = None
        else:
            ps = GL.parax_sys(spec)
            at, av = spec['ap']['type'], spec['ap']['value']
            ftype, mf = spec['ftype'], GL.max_field(spec)
            nF, _ = GL.media(spec, WF)
            nC, _ = GL.media(spec, WC)
        dn = [a - b for a, b in zip(nF, nC)]
        try:
            ya, ua = ps.marginal(at, av)
            yb, ub = ps.chief(ftype, mf) if mf > 0 else ([0.0] * ps.K1, [0.0] * ps.K1)
        except (ZeroDivisionError, FloatingPointError):
            out.cls('reference_degenerate')
            return
        arr = np.array(list(ya) + list(ua) + list(yb) + list(ub), dtype=float)
        if not np.all(np.isfinite(arr)):
            out.cls('reference_degenerate')
            return
        usc = max(abs(v) for v in ua) + 1e-300
        inv = ps.n[1] * (yb[0] * ua[0] - ya[0] * ub[0])
        if abs(ua[-1]) < 1e-6 * usc or mf == 0 or abs(inv) < 1e-12:
            out.cls('afocal_or_zero_invariant')
            return
        has_mirror = any(ps.mirror)
        A = o.aberrations
        lib = dict(zip(NAMES, [np.ravel(np.asarray(v, dtype=float)) for v in A.third_order()]))
        K = ps.K1 - 1
        for k in NAMES[:-1]:
            if not out.expect('family_length', len(lib[k]) == K, family=k, got=len(lib[k]), want=K):
                return
        mirror_kf = has_mirror and out.kf_open('C08-mirror-terms')
        colour_kf = out.kf_open('C08-chromatic-height')
        if mirror_kf:
            out.region('C08-mirror-terms')
        # reference (route 1)
        y_launch = float(ya[0]) if math.isinf(ps.t_obj) else 0.0
        ref = RS.surface_terms(ps, ya, ua, yb, ub, dn, signed=not mirror_kf, skip_mirror_terms=False,
                               colour_height_prev=(y_launch if colour_kf else None))
        if colour_kf:
            out.region('C08-chromatic-height')
        # conditioning by finite perturbation of the reference inputs (as in C04)
        from vf.ref.paraxial import ParaxSys
        pert = lambda v, i: v * (1 + 1e-13 * (1 if (i * 7919) % 3 else -1))  # noqa
        ps2 = ParaxSys([pert(v, i) for i, v in enumerate(ps.c)], [pert(v, i + 1) for i, v in enumerate(ps.t)],
                       [pert(v, i + 2) for i, v in enumerate(ps.n_abs)], ps.mirror, pert(ps.t_obj, 5), ps.stop)
        try:
            ya2, ua2 = ps2.marginal(at, av)
            yb2, ub2 = ps2.chief(ftype, mf)
            ref2 = RS.surface_terms(ps2, ya2, ua2, yb2, ub2, dn, signed=not mirror_kf,
                                    colour_height_prev=(y_launch if colour_kf else None))
        except (ZeroDivisionError, FloatingPointError):
            ref2 = ref
        refr = np.array([not m for m in ps.mirror[:K]])
        for k in ('TSC', 'CC', 'TAC', 'TPC', 'DC', 'TAchC', 'TchC'):
            want, got = ref[k], lib[k]
            sens = 1e4 * np.max(np.abs(np.where(np.isfinite(ref2[k] - want), ref2[k] - want, 0.0)))
            sc = max(np.max(np.abs(want)), 1e-300)
            if mirror_kf:
                # weakened relation inside the finding's region
                mir = ~refr
                if k != 'DC':
                    out.close('mirror_terms_are_zero', got[mir], np.zeros(int(mir.sum())), atol=0.0, family=k)
                out.close('surface_term_' + k, got[refr], want[refr], rtol=1e-8, scale=sc, atol=sens, family=k,
                          convention='unsigned (known finding region)')
            else:
                out.close('surface_term_' + k, got, want, rtol=1e-8, scale=sc, atol=sens, family=k)
        if not mirror_kf:
            sensS = 1e4 * np.max(np.abs(ref2['S'] - ref['S']))
            Ssc = np.max(np.abs(ref['S'])) + 1e-300
            out.close('seidel_sums', lib['S'], ref['S'], rtol=1e-8, scale=Ssc, atol=sensS)
            # route 2: Welford
            Sw, H = RS.welford_sums(ps, ya, ua, yb, ub)
            if all(abs(ps.n[j] * (([RS.ua_before_first(ps, ya, ua)] + list(ua[:-1]))[j] + ya[j] * ps.c[j])) > 1e-9 * usc
                   for j in range(K)):
                out.close('seidel_sums_welford', lib['S'], -Sw, rtol=1e-7, scale=Ssc, atol=sensS)
            else:
                out.close('seidel_sums_welford', lib['S'][:4], -Sw[:4], rtol=1e-7, scale=Ssc, atol=sensS)
        # identities on the returned families
        ul = float(np.ravel(o.paraxial.marginal_ray()[1])[-1])
        out.close('tangential_coma_is_three_sagittal', lib['TCC'], 3 * lib['CC'], rtol=1e-14, atol=0)
        for lon, tr in (('SC', 'TSC'), ('AC', 'TAC'), ('PC', 'TPC'), ('LchC', 'TAchC')):
            out.close('longitudinal_is_transverse_over_minus_slope', lib[lon], -lib[tr] / ul, rtol=1e-12,
                      scale=np.max(np.abs(lib[tr] / ul)) + 1e-300, family=lon)
        nk = float(np.ravel(o.n())[-1])
        for j, k in enumerate(('TSC', 'CC', 'TAC', 'TPC', 'DC')):
            out.close('sum_is_sum_of_surface_terms', lib['S'][j], -np.sum(lib[k]) * nk * ul * 2, rtol=1e-12,
                      scale=np.sum(np.abs(lib[k])) * abs(nk * ul * 2) + 1e-300, family=k)
        acc = dict(TSC=A.TSC, SC=A.SC, CC=A.CC, TCC=A.TCC, TAC=A.TAC, AC=A.AC, TPC=A.TPC, PC=A.PC, DC=A.DC, TAchC=A.TAchC,
                   LchC=A.LchC, TchC=A.TchC, S=A.seidels)
        for k, fn in acc.items():
            v = np.ravel(np.asarray(fn(), dtype=float))
            out.expect('accessor_agrees_with_third_order', v.shape == lib[k].shape and
                       np.allclose(v, lib[k], rtol=1e-13, atol=0, equal_nan=True), family=k)
        # operands
        from optiland.optimization.operand.aberration import AberrationOperand as AO
        for k in ('TSC', 'CC', 'TAC', 'TPC', 'DC', 'TAchC', 'TchC', 'SC', 'AC', 'PC', 'LchC', 'TCC'):
            out.close('sum_operand', float(getattr(AO, k + '_sum')(o)), float(np.sum(lib[k])), rtol=1e-12,
                      scale=float(np.sum(np.abs(lib[k]))) + 1e-300, family=k)
            j = K // 2
            out.close('surface_operand', float(getattr(AO, k)(o, j)), float(lib[k][j]), rtol=1e-13, atol=0, family=k)
        for j in range(5):
            out.close('seidel_operand', float(AO.seidels(o, j + 1)), float(lib['S'][j]), rtol=1e-13, atol=0)
        # the same operands reached by name, as the optimiser and the tolerancing module reach them
        from optiland.optimization.operand.operand import Operand
        for k in ('TSC', 'CC', 'TAC', 'TPC', 'DC', 'TAchC', 'TchC', 'SC', 'AC', 'PC', 'LchC', 'TCC'):
            v = float(np.ravel(Operand(k + '_sum', 0.0, 1.0, {'optic': o}).value)[0])
            out.close('named_operand', v, float(np.sum(lib[k])), rtol=1e-12, scale=float(np.sum(np.abs(lib[k]))) + 1e-300,
                      name=k + '_sum')
            jj = K // 2
            v = float(np.ravel(Operand(k, 0.0, 1.0, {'optic': o, 'surface_number': jj}).value)[0])
            out.close('named_operand', v, float(lib[k][jj]), rtol=1e-13, atol=0, name=k)
        v = float(np.ravel(Operand('seidel', 0.0, 1.0, {'optic': o, 'seidel_number': 3}).value)[0])
        out.close('named_operand', v, float(lib['S'][2]), rtol=1e-13, atol=0, name='seidel')
        powered = sum(1 for j in range(K) if ps.c[j] != 0 and (ps.mirror[j] or ps.n_abs[j] != ps.n_abs[j + 1]))
        out.nt(powered >= 3 and ps.stop != 1 and mf > 0)
        if spec is None:
            return
        # stop-shift invariance of S_I and S_IV
        # the Lagrange invariant (aperture x field) must not depend on where the stop is
        can_shift = (at == 'EPD' and math.isinf(ps.t_obj) and ftype == 'angle') or \
                    (at == 'objectNA' and ftype == 'object_height')
        if can_shift and K >= 2 and not has_mirror:
            tw = copy.deepcopy(spec)
            cur = ps.stop - 1
            new = (cur + 1 + case.get('shift', 0)) % K
            if new != cur:
                for i, s in enumerate(tw['surfs']):
                    s['stop'] = (i == new)
                o2 = build(tw)
                S2 = np.ravel(np.asarray(o2.aberrations.seidels(), dtype=float))
                sc0 = float(np.sum(np.abs(lib['TSC']))) * abs(nk * ul * 2) + 1e-300
                sc3 = float(np.sum(np.abs(lib['TPC']))) * abs(nk * ul * 2) + 1e-300
                out.close('spherical_sum_independent_of_stop', S2[0], lib['S'][0], rtol=1e-9, scale=sc0)
                out.close('petzval_sum_independent_of_stop', S2[3], lib['S'][3], rtol=1e-9, scale=sc3)
                out.cls('stop_shifted')
        # small-aperture limit of the real marginal ray error
        self.small_aperture(case, spec, o, ps, lib, out)

    def small_aperture(self, case, spec, o, ps, lib, out):
        if any(ps.mirror) or spec['img']['mat']['kind'] != 'air' and False:
            return
        at, av = spec['ap']['type'], spec['ap']['value']
        ya, ua = ps.marginal(at, av)
        K1 = ps.K1
        # paraxial image plane of the axial object point, measured from the last real surface
        uK = ua[K1 - 2]
        if abs(uK) < 1e-4:
            return
        z_last = ps.z()[K1 - 2]
        zf = z_last - ya[K1 - 2] / uK
        tsc_sum = float(np.sum(lib['TSC']))
        w = spec['wls'][spec['prim']]
        rhos = [0.2, 0.1, 0.05]
        T = []
        for rho in rhos:
            o.trace_generic(0.0, 0.0, 0.0, rho, w)
            s = o.surface_group.surfaces[K1 - 1]
            y, z, M, N = [float(np.ravel(getattr(s, a))[0]) for a in ('y', 'z', 'M', 'N')]
            if not all(map(math.isfinite, (y, z, M, N))) or N == 0:
                return
            T.append((y + (zf - z) * M / N) / rho ** 3)
        # Richardson: T(rho) = L + a rho^2  ->  L = (4 T(rho/2) - T(rho)) / 3
        L1 = (4 * T[1] - T[0]) / 3
        L2 = (4 * T[2] - T[1]) / 3
        if abs(tsc_sum) < 1e-9 * abs(ya[0]) or abs(L2 - L1) > 0.02 * max(abs(L2), 1e-300):
            out.cls('small_aperture_not_in_asymptotic_regime')
            return
        # Smith's TSC is defined for the full aperture: transverse error of the rho-zone ray = TSC_sum * rho^3
        out.close('third_order_predicts_real_marginal_error', L2, tsc_sum, rtol=0.02, atol=1e-9 * abs(ya[0]),
                  T=T, L1=L1)
        out.cls('small_aperture_checked')


CHECK = C08()
