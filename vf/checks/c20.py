"""C20 - Zemax import reproduces the prescription written in the file."""
import contextlib
import io
import math
import os

import numpy as np
from hypothesis import strategies as st

from vf.harness import Check, HERE
from vf.gen import lens as GL
from vf.ref import zmx as RZ
from vf.ref.paraxial import ParaxSys

f = st.floats


def surface_strategy():
    glass = st.one_of(
        st.none(), st.none(),
        # a catalogue glass, as the full GLAS line or as the short one that carries the name only
        st.tuples(st.sampled_from([g for g in GL.glasses() if ' ' not in g['name']]), st.sampled_from([False, False, True])).map(
            lambda t: dict(name=t[0]['name'], file=t[0]['file'], known=True, nd=1.6, vd=50.0, bare=t[1])),
        st.tuples(st.integers(0, 99), f(1.45, 1.85), f(25.0, 65.0)).map(
            lambda t: dict(name='ZQX%02dW' % t[0], known=False, nd=round(t[1], 6), vd=round(t[2], 4))))
    # curvature: exactly zero, or a radius of at most 1e6 (vanishing non-zero curvatures are a number-format corner,
    # not a prescription)
    curv = st.one_of(st.just(0.0), f(-0.05, 0.05), f(-0.2, 0.2)).map(lambda c: 0.0 if abs(c) < 1e-6 else c)
    return st.fixed_dictionaries(dict(
        type=st.sampled_from(['STANDARD', 'STANDARD', 'EVENASPH']),
        curv=curv, disz=f(0.0, 40.0), conic=st.sampled_from([0.0, 0.0, -1.0, 0.5, -2.3]),
        parms=st.lists(st.one_of(st.just(0.0), f(-1e-5, 1e-5)), min_size=8, max_size=8),
        glass=glass))


def prescription():
    return st.fixed_dictionaries(dict(
        mode=st.sampled_from(['SEQ'] * 9 + ['NSC']),
        ap=st.one_of(st.tuples(st.just('ENPD'), f(0.5, 20.0)), st.tuples(st.just('FNUM'), f(1.5, 20.0)),
                     st.tuples(st.just('OBNA'), f(0.01, 0.3))),
        ftype=st.sampled_from([0, 0, 1]),
        fields_y=st.lists(f(-20.0, 20.0).map(lambda v: round(v, 6)), min_size=1, max_size=12, unique=True),
        # x components of the fields (index-wise; several fields may then share one y value) and a selector that lets a
        # y value repeat
        fields_x=st.lists(st.sampled_from([0.0, 0.0, 0.0, 1.5, -3.0, 7.25]), min_size=12, max_size=12),
        repeat_y=st.lists(st.integers(0, 11), max_size=3),
        wls=st.lists(f(0.45, 0.70).map(lambda v: round(v, 7)), min_size=1, max_size=12),
        prim=st.integers(0, 11), stop=st.integers(0, 40), obj_inf=st.booleans(), obj_t=f(5.0, 500.0),
        surfs=st.lists(surface_strategy(), min_size=1, max_size=28),
        img_curv=st.sampled_from([0.0, 0.0, 0.0, -0.01]),
        fmt=st.sampled_from(['g', 'E', 'zemax']), enc=st.sampled_from(['utf-8', 'utf-16']),
        gcat=st.sampled_from([None, ['SCHOTT'], ['SCHOTT', 'OHARA', 'HOYA']]),
        head=st.sampled_from(['vers', 'vers', 'mode_first', 'ap_first'])))


def quiet(fn, *a, **k):
    with contextlib.redirect_stdout(io.StringIO()):
        return fn(*a, **k)


_KNOWN_OK = {}


def glass_name_is_exact(name):
    """The catalogue name is usable in a .zmx (single token) and resolves to itself."""
    return ' ' not in name


class C20(Check):
    pid = 'C20'
    title = 'Zemax import reproduces the prescription written in the file'
    rule = ('cases: generated sequential prescriptions (object + 1-28 STANDARD/EVENASPH surfaces + image; curvature incl. 0; '
            'finite/INFINITY object distance; conic; 8 PARMs; catalogue glass with a unique exact name or unknown name '
            'with (n_d,V_d); any stop; ENPD/FNUM/OBNA; angle/object-height fields (1-12 distinct values); 1-12 wavelengths, '
            'any primary; number formats repr/%.15E/fixed; UTF-8 or UTF-16+BOM+CRLF) written by an independent writer, and '
            'non-sequential variants. Oracle: the loaded lens equals the written numbers (counts, radii, vertex positions, '
            'conics, coefficients, media, stop, aperture, fields, wavelengths, primary) and its paraxial accessors equal the '
            'ABCD reference of the written numbers. Non-trivial: >=4 surfaces incl. an EVENASPH with a non-zero PARM, a '
            'model glass and primary index != 1. Distinct = distinct prescription hashes.')
    assumptions = ['catalogue glass names are the single-token unique exact names of the vetted list; unknown names are not '
                   'substrings of any catalogue entry',
                   'the image surface is written plane unless class curved_image (the reader is then expected to keep it)']

    def budget(self, tier):
        return (150, 8) if tier == 'quick' else (2000, 16)

    def strategy(self, tier):
        return prescription()

    def describe(self, case):
        c = dict(case)
        c['surfs'] = [dict(type=s['type'], curv=s['curv'], disz=s['disz'], glass=(s['glass'] or {}).get('name'))
                      for s in case['surfs'][:6]]
        c['n_surfs'] = len(case['surfs'])
        return c

    def realise(self, case):
        """-> prescription for the writer (object, surfaces, image) with consistent indices"""
        surfs = []
        surfs.append(dict(type='STANDARD', curv=0.0, disz='INFINITY' if case['obj_inf'] else case['obj_t'], conic=0.0,
                          parms=[0.0] * 8, glass=None, stop=False))
        for s in case['surfs']:
            q = dict(s)
            g = q['glass']
            if g and g.get('known') and not glass_name_is_exact(g['name']):
                q['glass'] = None
            q['stop'] = False
            if q['type'] == 'STANDARD':
                q['parms'] = [0.0] * 8
            surfs.append(q)
        K = len(case['surfs'])
        surfs[1 + case['stop'] % K]['stop'] = True
        surfs.append(dict(type='STANDARD', curv=case['img_curv'], disz=0.0, conic=0.0, parms=[0.0] * 8, glass=None,
                          stop=False))
        ap = case['ap']
        if ap[0] == 'OBNA' and case['obj_inf']:
            ap = ('ENPD', 5.0)
        ftype = case['ftype']
        if ftype == 1 and case['obj_inf']:
            ftype = 0
        nw = len(case['wls'])
        fy = list(case['fields_y'])
        for r in case.get('repeat_y', []):
            if len(fy) < 12:
                fy.append(fy[r % len(fy)])                 # the same y again (it will carry another x)
        fx = [case.get('fields_x', [0.0] * 12)[i] for i in range(len(fy))]
        return dict(mode=case['mode'], ap=ap, ftype=ftype, tele=False, fields_y=fy, fields_x=fx, wls=case['wls'],
                    prim=1 + case['prim'] % nw, surfs=surfs, fmt=case['fmt'], gcat=case['gcat'], head=case.get('head', 'vers'))

    def check(self, case, out):
        from optiland.fileio import load_zemax_file
        from optiland.materials import Material, AbbeMaterial, IdealMaterial
        p = self.realise(case)
        text = RZ.write_zmx(p)
        data = RZ.encode(text, case['enc'])
        path = os.path.join(HERE, '.cache', 'c20_%d.zmx' % os.getpid())
        with open(path, 'wb') as fh:
            fh.write(data)
        out.cls('enc_' + case['enc'], 'fmt_' + case['fmt'], 'head_' + case.get('head', 'vers'), 'ap_' + p['ap'][0], 'ftype_%d' % p['ftype'],
                'mode_' + p['mode'])
        try:
            if p['mode'] != 'SEQ':
                try:
                    quiet(load_zemax_file, path)
                    out.fail('non_sequential_rejected', enc=case['enc'])
                except ValueError:
                    out.ok('non_sequential_rejected')
                out.nt(True)
                return
            o = quiet(load_zemax_file, path)
        finally:
            try:
                os.remove(path)
            except OSError:
                pass
        S = p['surfs']
        sg = o.surface_group
        ok = out.expect('surface_count', sg.num_surfaces == len(S), got=sg.num_surfaces, want=len(S))
        if not ok:
            return
        # radii / conics / coefficients
        def radius(cv):
            cv = float(self.parse(cv, case['fmt']))
            with np.errstate(all='ignore'):
                r = math.inf if cv == 0 else float(np.float64(1.0) / np.float64(cv))
            return math.inf if math.isinf(r) else r       # a plane, whatever the sign of a vanishing curvature
        want_R = [radius(s['curv']) for s in S]
        out.close('radii', [float(r) for r in sg.radii], want_R, rtol=1e-15)
        # a conic constant on a flat STANDARD surface has no meaning (the reader builds a plane)
        want_k = [float(self.parse(s.get('conic', 0.0), case['fmt'])) if (math.isfinite(radius(s['curv'])) or s['type'] == 'EVENASPH')
                  else 0.0 for s in S]
        out.close('conics', [float(k) for k in sg.conic], want_k, rtol=0, atol=0)
        z = [0.0]
        for s in S[1:-1]:
            z.append(z[-1] + float(self.parse(s['disz'], case['fmt'])))
        pos = [float(v) for v in np.ravel(sg.positions)]
        Lsc = max(1.0, abs(z[-1]))
        out.close('vertex_positions', pos[1:], z, atol=1e-12 * Lsc, rtol=1e-14)
        if S[0]['disz'] == 'INFINITY':
            out.expect('object_distance', math.isinf(pos[0]) and pos[0] < 0, got=pos[0])
        else:
            out.close('object_distance', pos[0], -float(self.parse(S[0]['disz'], case['fmt'])), rtol=1e-15)
        has_asph, has_model, n_glass = False, False, 0
        for i, s in enumerate(S[:-1]):
            g = sg.surfaces[i].geometry
            if s['type'] == 'EVENASPH':
                out.cls('evenasph')
                want_c = [float(self.parse(c, case['fmt'])) for c in s['parms']]
                got_c = [float(c) for c in getattr(g, 'c', [])]
                out.expect('aspheric_coefficients', got_c == want_c, surface=i, got=got_c, want=want_c)
                out.expect('surface_type', type(g).__name__ == 'EvenAsphere', surface=i, got=type(g).__name__)
                if any(want_c):
                    has_asph = True
            else:
                out.expect('surface_type', type(g).__name__ in ('Plane', 'StandardGeometry'), surface=i,
                           got=type(g).__name__)
            m = sg.surfaces[i].material_post
            gl = s.get('glass')
            if gl is None:
                out.expect('medium', isinstance(m, IdealMaterial) and float(m.n(0.55)) == 1.0, surface=i,
                           got=type(m).__name__)
            elif gl.get('known'):
                n_glass += 1
                out.cls('catalogue_glass')
                if gl.get('bare'):
                    out.cls('glass_line_with_name_only')
                okm = isinstance(m, Material) and m.material_data.get('filename') == gl['file']
                out.expect('medium', okm, surface=i, glass=gl['name'], got=type(m).__name__,
                           got_file=getattr(m, 'material_data', {}).get('filename') if isinstance(m, Material) else None)
            else:
                out.cls('model_glass')
                has_model = True
                okm = isinstance(m, AbbeMaterial) and float(m.index) == float(self.parse(gl['nd'], case['fmt'])) and \
                    float(m.abbe) == float(self.parse(gl['vd'], case['fmt']))
                out.expect('medium', okm, surface=i, glass=gl['name'], got=type(m).__name__,
                           got_index=getattr(m, 'index', None), got_abbe=getattr(m, 'abbe', None))
        stop_want = [i for i, s in enumerate(S) if s.get('stop')][0]
        out.expect('stop_surface', sg.stop_index == stop_want, got=sg.stop_index, want=stop_want)
        apmap = {'ENPD': 'EPD', 'FNUM': 'imageFNO', 'OBNA': 'objectNA'}
        out.expect('aperture', o.aperture.ap_type == apmap[p['ap'][0]] and
                   float(o.aperture.value) == float(self.parse(p['ap'][1], case['fmt'])),
                   got=(o.aperture.ap_type, o.aperture.value), want=p['ap'])
        out.expect('field_type', o.field_type == ('angle' if p['ftype'] == 0 else 'object_height'), got=o.field_type)
        got_f = sorted((float(fd.x), float(fd.y)) for fd in o.fields.fields)
        want_f = sorted({(float(self.parse(x, case['fmt'])), float(self.parse(v, case['fmt'])))
                         for x, v in zip(p['fields_x'], p['fields_y'])})
        if any(x != 0 for x in p['fields_x']):
            out.cls('fields_with_x_component')
        if len(set(p['fields_y'])) < len(p['fields_y']):
            out.cls('fields_sharing_a_y_value')
        out.expect('field_values', got_f == want_f, got=got_f, want=want_f)
        got_w = [float(w.value) for w in o.wavelengths.wavelengths]
        want_w = [float(self.parse(w, case['fmt'])) for w in p['wls']]
        out.expect('wavelengths', got_w == want_w, got=got_w, want=want_w)
        prim = [i for i, w in enumerate(o.wavelengths.wavelengths) if w.is_primary]
        out.expect('primary_wavelength', prim == [p['prim'] - 1], got=prim, want=p['prim'] - 1)
        if p['surfs'][-1]['curv'] != 0:
            out.cls('curved_image')
        # paraxial properties from the written numbers
        wl = want_w[p['prim'] - 1]
        ns = []
        cur = 1.0
        for i, s in enumerate(S):
            gl = s.get('glass')
            if gl is None:
                cur = 1.0
            elif gl.get('known'):
                cur = GL.mat_index(dict(kind='glass', file=gl['file']), wl)
            else:
                cur = float(AbbeMaterial(float(self.parse(gl['nd'], case['fmt'])),
                                         float(self.parse(gl['vd'], case['fmt']))).n(wl))
            ns.append(cur)
        c = [float(self.parse(s['curv'], case['fmt'])) for s in S[1:]]
        t = [float(self.parse(s['disz'], case['fmt'])) for s in S[1:-1]]
        t_obj = math.inf if S[0]['disz'] == 'INFINITY' else float(self.parse(S[0]['disz'], case['fmt']))
        ps = ParaxSys(c, t, ns, [False] * len(c), t_obj, stop_want)
        phi = ps.power()
        phis = sum(abs((ps.n[j + 1] - ps.n[j]) * ps.c[j]) for j in range(ps.K1))
        if phi != 0 and phis / abs(phi) < 1e4 and math.isfinite(ps.F2()) and math.isfinite(ps.EPL()):
            P = o.paraxial
            rt = 1e-9 * max(1.0, phis / abs(phi))
            f2r = ps.f2()
            out.close('paraxial_f2', float(P.f2()), abs(f2r), rtol=rt)
            out.close('paraxial_F2', float(P.F2()), ps.F2(), rtol=rt, scale=max(abs(ps.F2()), Lsc))
            out.close('paraxial_EPL', float(P.EPL()), ps.EPL(), rtol=rt, scale=max(abs(ps.EPL()), Lsc))
        out.nt(len(S) - 2 >= 4 and has_asph and has_model and p['prim'] != 1)

    def extra_campaign(self, tier, seed):
        """Coverage-guided campaign (Atheris / libFuzzer) with the same oracle inside the target."""
        import glob
        import json
        import shutil
        import subprocess
        import sys
        try:
            import atheris  # noqa
        except ImportError:
            return dict(engine='atheris', available=False, note='atheris not importable; Hypothesis only')
        procs, runs = (1, 400) if tier == 'quick' else (12, 6000)
        base = os.path.join(HERE, '.cache', 'fuzz_c20')
        shutil.rmtree(base, ignore_errors=True)
        jobs = []
        for i in range(procs):
            d = os.path.join(base, 'p%d' % i)
            os.makedirs(os.path.join(d, 'corpus'))
            if i % 2 == 1:
                # half of the campaigns start from the two .zmx files shipped with the repository's tests (as raw bytes)
                for fn in glob.glob(os.path.join(os.environ.get('REPO_DIR', '/repo'), 'tests', 'zemax_files', '*.zmx')):
                    shutil.copy(fn, os.path.join(d, 'corpus'))
            env = dict(os.environ, VF_FUZZ_STATS=os.path.join(d, 'stats.json'))
            cmd = [sys.executable, '-m', 'vf.fuzz.zmx_atheris', '-runs=%d' % runs, '-seed=%d' % (seed * 100 + i + 1),
                   '-max_len=4096', '-len_control=0', '-artifact_prefix=%s/' % d, os.path.join(d, 'corpus')]
            jobs.append((d, subprocess.Popen(cmd, cwd=HERE, env=env, stdout=subprocess.PIPE, stderr=subprocess.DEVNULL,
                                             text=True)))
        info = dict(engine='atheris %s / libFuzzer, FuzzedDataProvider-decoded prescriptions, oracle of C20 in the target'
                           % getattr(atheris, '__version__', ''), processes=procs, runs_per_process=runs, evaluations=0,
                    distinct_nontrivial=0, classes={}, violations=[], corpora='empty / tests/zemax_files/*.zmx alternating')
        for d, pr in jobs:
            outp, _ = pr.communicate()
            for line in (outp or '').splitlines():
                if line.startswith('FUZZ-VIOLATION'):
                    parts = dict(kv.split('=', 1) for kv in line.split()[1:])
                    info['violations'].append((parts['clause'], os.path.join(HERE, parts['replay']), {'via': 'atheris'}))
            try:
                stt = json.load(open(os.path.join(d, 'stats.json')))
                info['evaluations'] += stt['evaluations']
                info['distinct_nontrivial'] += stt['distinct_nontrivial']
                for k, v in stt['classes'].items():
                    info['classes'][k] = info['classes'].get(k, 0) + v
            except (OSError, ValueError):
                pass
            if pr.returncode not in (0, 77):
                info.setdefault('abnormal_exit', []).append(pr.returncode)
        shutil.rmtree(base, ignore_errors=True)
        return info

    @staticmethod
    def parse(v, fmt):
        """The number the file actually contains (after formatting), as a float."""
        if v == 'INFINITY':
            return math.inf
        return float(RZ.num(v, fmt))


CHECK = C20()
