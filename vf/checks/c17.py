"""C17 - Fresnel coefficients conserve energy; polarization elements obey their algebra."""
import copy
import math

import numpy as np
from hypothesis import strategies as st

from vf.harness import Check
from vf.gen.util import weighted
from vf.gen import lens as GL
from vf.gen.build import build
from vf.gen.edit import edit_strategy, build_with_history, warm_all, ALL_KINDS
from vf.checks.c02 import ray_bundle

POL = GL.Profile(max_surfs=6, shapes=['standard', 'standard', 'even_asphere'], allow_tilt=True, keep_edges=True,
                 rho_min=1.5, steep_prob=0.1, max_field_deg=15.0, allow_absorb=False, allow_apertures=False,
                 allow_coatings=False)
POL_NOMIRROR = GL.Profile(max_surfs=6, shapes=['standard', 'standard', 'even_asphere'], allow_tilt=True, keep_edges=True,
                          rho_min=1.5, steep_prob=0.1, max_field_deg=15.0, allow_mirror=False)

f = st.floats
NAMED = ['H', 'V', 'L+45', 'L-45', 'RCP', 'LCP']


def state_strategy():
    named = st.sampled_from(NAMED).map(lambda n: dict(name=n))
    free = st.fixed_dictionaries(dict(Ex=f(0.0, 1.0), Ey=f(0.0, 1.0), px=f(-math.pi, math.pi), py=f(-math.pi, math.pi)))
    return st.one_of(named, free)


def make_state(sd):
    from optiland.rays import create_polarization, PolarizationState
    if 'name' in sd:
        return create_polarization(sd['name'])
    Ex, Ey = sd['Ex'], sd['Ey']
    if math.hypot(Ex, Ey) < 1e-3:
        Ex = 1.0          # "no field" (amplitudes whose squares underflow) is not a polarization state
    return PolarizationState(True, Ex=Ex, Ey=Ey, phase_x=sd['px'], phase_y=sd['py'])


def orthogonal_state(s):
    from optiland.rays import PolarizationState
    # E = (a e^{i px}, b e^{i py})  ->  E_perp = (-conj(beta), conj(alpha)) = (b e^{i(pi - py)}, a e^{-i px})
    return PolarizationState(True, Ex=s.Ey, Ey=s.Ex, phase_x=math.pi - s.phase_y, phase_y=-s.phase_x)


def jones_vec(s):
    return np.array([s.Ex * np.exp(1j * s.phase_x), s.Ey * np.exp(1j * s.phase_y)])


def rot(t):
    c, s = math.cos(t), math.sin(t)
    return np.array([[c, -s], [s, c]])


class _Dummy:
    def __init__(self, n, w=0.55):
        self.x = np.zeros(n)
        self.w = np.full(n, w)


class C17(Check):
    pid = 'C17'
    title = 'Fresnel coefficients conserve energy; polarization elements obey their algebra'
    rule = ('cases: (fresnel) generated index pairs in [1,4]^2 and incidence angles in [0,90deg) below the critical angle, '
            'plus Brewster and normal incidence; (trace) generated lenses without coatings/apertures/absorption x '
            'generated ray bundles x named and arbitrary polarization states; (coated) lenses with Fresnel coatings on '
            'every refracting surface: unpolarized intensity vs the mean over a generated state and its orthogonal '
            'partner; (element) polarizers, retarders, diattenuators at generated angles / retardances. Non-trivial: '
            'incidence > 20 deg (fresnel); >=2 refracting surfaces with a skew ray (trace, coated); angle not a multiple '
            'of pi/4 (element). Distinct = distinct case hashes.')
    assumptions = ['energy transmittance T = (n2 cos(theta_t))/(n1 cos(theta_i)) |t|^2 with theta_t from Snell\'s law',
                   'polarizer state vectors are the library\'s own named states (create_polarization)',
                   'trace clauses at 1e-7: the s-vector of nearly undeviated rays is only defined to ~1e-8']

    def budget(self, tier):
        return (300, 8) if tier == 'quick' else (3000, 16)

    def strategy(self, tier):
        fres = st.fixed_dictionaries(dict(kind=st.just('fresnel'), n1=f(1.0, 4.0), n2=f(1.0, 4.0),
                                          frac=st.lists(f(0.0, 0.999), min_size=1, max_size=6)))
        elem = st.fixed_dictionaries(dict(kind=st.just('element'), theta=f(-math.pi, math.pi), d=f(0.0, math.pi),
                                          tmin=f(0.0, 1.0), tmax=f(0.0, 1.0)))
        trace = st.fixed_dictionaries(dict(kind=st.just('trace'), spec=GL.lens_spec(POL), rays=ray_bundle(),
                                           state=state_strategy(), wl=st.integers(0, 3),
                                           edit=edit_strategy(ALL_KINDS, p_none=3)))
        coated = st.fixed_dictionaries(dict(kind=st.just('coated'), spec=GL.lens_spec(POL_NOMIRROR, min_surfs=2),
                                            rays=ray_bundle(), state=state_strategy(), wl=st.integers(0, 3)))
        return weighted((2, fres), (1, elem), (1, trace), (1, coated))

    def fixed_cases(self, tier):
        return [dict(kind='polarizers')]

    def describe(self, case):
        c = dict(case)
        if 'spec' in c:
            c['spec'] = dict(nsurf=len(case['spec']['surfs']), mats=[s['mat']['kind'] for s in case['spec']['surfs']])
            c['rays'] = case['rays'][:3]
        return c

    def check(self, case, out):
        out.cls('kind_' + case['kind'])
        return getattr(self, 'check_' + case['kind'])(case, out)

    # ------------------------------------------------------------------
    def check_fresnel(self, case, out):
        from optiland.jones import JonesFresnel
        from optiland.materials import IdealMaterial
        n1, n2 = case['n1'], case['n2']
        crit = math.asin(min(1.0, n2 / n1)) if n2 < n1 else math.pi / 2
        th = np.array([fr * crit * 0.999 for fr in case['frac']] + [0.0, math.atan(n2 / n1)])
        th = th[th < crit * 0.9995]
        J = JonesFresnel(IdealMaterial(n1), IdealMaterial(n2))
        d = _Dummy(len(th))
        Jr = J.calculate_matrix(d, reflect=True, aoi=th)
        Jt = J.calculate_matrix(d, reflect=False, aoi=th)
        rs, rp = Jr[:, 0, 0], Jr[:, 1, 1]
        ts, tp = Jt[:, 0, 0], Jt[:, 1, 1]
        ci = np.cos(th)
        ct = np.sqrt(1 - (n1 / n2 * np.sin(th)) ** 2)
        fac = (n2 * ct) / (n1 * ci)
        # cos(theta_t) = sqrt(1 - (n1/n2 sin theta)^2) loses eps / cos^2 near grazing incidence
        at = 1e-12 + 4e-15 / np.minimum(ci, ct) ** 2
        out.close('energy_s', np.abs(rs) ** 2 + fac * np.abs(ts) ** 2, np.ones(len(th)), rtol=1.0, scale=at, n1=n1, n2=n2)
        out.close('energy_p', np.abs(rp) ** 2 + fac * np.abs(tp) ** 2, np.ones(len(th)), rtol=1.0, scale=at, n1=n1, n2=n2)
        # textbook amplitudes (magnitudes: sign conventions differ between texts)
        rs_ref = (n1 * ci - n2 * ct) / (n1 * ci + n2 * ct)
        rp_ref = (n2 * ci - n1 * ct) / (n2 * ci + n1 * ct)
        ts_ref = 2 * n1 * ci / (n1 * ci + n2 * ct)
        tp_ref = 2 * n1 * ci / (n2 * ci + n1 * ct)
        out.close('fresnel_rs', np.abs(rs), np.abs(rs_ref), rtol=1.0, scale=at)
        out.close('fresnel_rp', np.abs(rp), np.abs(rp_ref), rtol=1.0, scale=at)
        out.close('fresnel_ts', np.abs(ts), np.abs(ts_ref), rtol=1.0, scale=at)
        out.close('fresnel_tp', np.abs(tp), np.abs(tp_ref), rtol=1.0, scale=at)
        # Brewster (last element if below the critical angle) and normal incidence
        if len(th) >= 2 and abs(th[-1] - math.atan(n2 / n1)) < 1e-15:
            out.close('brewster_rp_zero', abs(rp[-1]), 0.0, atol=1e-12, n1=n1, n2=n2)
        j0 = np.where(th == 0.0)[0]
        if len(j0):
            R0 = ((n1 - n2) / (n1 + n2)) ** 2
            out.close('normal_incidence', [abs(rs[j0[0]]) ** 2, abs(rp[j0[0]]) ** 2], [R0, R0], atol=1e-13)
        out.nt(bool(np.any(th > math.radians(20))))
        # the same coefficients reached through the coating of a traced surface (angle of incidence worked out by the
        # library from ray and normal): one coated plane interface n1 -> n2, met by a ray travelling towards +z, and the
        # same interface met by a ray travelling towards -z (after an uncoated plane mirror).  x-polarised light is
        # s-polarised for a ray in the y-z plane, y-polarised light is p-polarised; |E|^2 is what the library reports.
        from vf.gen.simple import spec as mk, surf, glass, MIRROR
        from optiland.rays import create_polarization

        class Chief:
            x = np.array([0.0])
            y = np.array([0.0])
        for th_ in th[:3]:
            deg = math.degrees(float(th_))
            if not (0.5 < deg < 80.0):
                continue
            i_s = float(abs(2 * n1 * math.cos(th_) / (n1 * math.cos(th_) + n2 * math.sqrt(1 - (n1 / n2 * math.sin(th_)) ** 2))) ** 2)
            i_p = float(abs(2 * n1 * math.cos(th_) / (n2 * math.cos(th_) + n1 * math.sqrt(1 - (n1 / n2 * math.sin(th_)) ** 2))) ** 2)
            plus = mk([surf(R='inf', t=5.0, mat=glass(n2), stop=True, coat='fresnel')], n0=n1, ap=('EPD', 1.0),
                      fields=(0.0, deg), wls=(0.55,), img=glass(n2))
            minus = mk([surf(R='inf', t=-5.0, mat=MIRROR, stop=True), surf(R='inf', t=-5.0, mat=glass(n2), coat='fresnel')],
                       n0=n1, ap=('EPD', 1.0), fields=(0.0, deg), wls=(0.55,), img=glass(n2))
            for direction, sp in (('+z', plus), ('-z', minus)):
                for nm, want in (('H', i_s), ('V', i_p)):
                    o = build(sp)
                    o.set_polarization(create_polarization(nm))
                    r = o.trace(0.0, 1.0, 0.55, None, Chief())
                    out.close('coated_plane_transmits_fresnel_intensity', float(np.ravel(r.i)[0]), want, rtol=1e-9, atol=1e-12,
                              direction=direction, state=nm, n1=n1, n2=n2, aoi_deg=deg)
            out.cls('coated_plane_traced')

    def check_polarizers(self, case, out):
        from optiland import jones as JJ
        from optiland.rays import create_polarization
        d = _Dummy(1)
        table = {'H': JJ.JonesPolarizerH, 'V': JJ.JonesPolarizerV, 'L+45': JJ.JonesPolarizerL45,
                 'L-45': JJ.JonesPolarizerL135, 'RCP': JJ.JonesPolarizerRCP, 'LCP': JJ.JonesPolarizerLCP}
        partner = {'H': 'V', 'V': 'H', 'L+45': 'L-45', 'L-45': 'L+45', 'RCP': 'LCP', 'LCP': 'RCP'}
        for name, cls in table.items():
            P = cls().calculate_matrix(d)[0][:2, :2]
            v = jones_vec(create_polarization(name))
            vp = jones_vec(create_polarization(partner[name]))
            out.close('polarizer_idempotent', np.abs(P @ P - P), 0.0, atol=1e-14, name=name)
            out.close('polarizer_passes_its_state', np.abs(P @ v - v), 0.0, atol=1e-14, name=name)
            out.close('polarizer_blocks_orthogonal_state', np.abs(P @ vp), 0.0, atol=1e-14, name=name)
            out.close('polarizer_hermitian', np.abs(P - P.conj().T), 0.0, atol=1e-14, name=name)
        out.nt(True)

    def check_element(self, case, out):
        from optiland import jones as JJ
        d = _Dummy(1)
        th, dl = case['theta'], case['d']
        R, Rm = rot(th), rot(-th)
        U = JJ.JonesLinearRetarder(dl, th).calculate_matrix(d)[0][:2, :2]
        U0 = JJ.JonesLinearRetarder(dl, 0.0).calculate_matrix(d)[0][:2, :2]
        out.close('retarder_unitary', np.abs(U.conj().T @ U - np.eye(2)), 0.0, atol=1e-13, theta=th, d=dl)
        ev = np.linalg.eigvals(U)
        out.close('retarder_retardance', math.cos(np.angle(ev[0] / ev[1])), math.cos(dl), atol=1e-9, theta=th, d=dl)
        out.close('retarder_is_rotated_element', np.abs(U - R @ U0 @ Rm), 0.0, atol=1e-13, theta=th, d=dl)
        for cls, ret in ((JJ.JonesQuarterWaveRetarder, math.pi / 2), (JJ.JonesHalfWaveRetarder, math.pi)):
            W = cls(th).calculate_matrix(d)[0][:2, :2]
            W0 = JJ.JonesLinearRetarder(ret, 0.0).calculate_matrix(d)[0][:2, :2]
            out.close('waveplate_is_rotated_retarder', np.abs(W - R @ W0 @ Rm), 0.0, atol=1e-13, theta=th,
                      which=cls.__name__)
        tmin, tmax = sorted((case['tmin'], case['tmax']))
        D = JJ.JonesLinearDiattenuator(tmin, tmax, th).calculate_matrix(d)[0][:2, :2]
        D0 = np.diag([tmax, tmin]).astype(complex)
        want = R @ D0 @ Rm
        if out.kf_open('C17-diattenuator-offdiagonal'):
            out.region('C17-diattenuator-offdiagonal')
            # weakened relation: diagonal entries follow the rotation law; off-diagonals equal each other
            out.close('element_is_rotated_element', np.abs(np.diag(D) - np.diag(want)), 0.0, atol=1e-13, theta=th)
            out.close('element_is_rotated_element', abs(D[0, 1] - D[1, 0]), 0.0, atol=1e-14, theta=th)
        else:
            out.close('element_is_rotated_element', np.abs(D - want), 0.0, atol=1e-13, theta=th, tmin=tmin, tmax=tmax,
                      got_offdiag=D[0, 1], want_offdiag=want[0, 1])
        out.nt(abs(math.sin(4 * th)) > 1e-3)

    # ------------------------------------------------------------------
    def trace(self, o, case, state):
        """One field (the first Hy of the bundle), the bundle's pupil points, through the public Optic.trace()."""
        spec = case['spec']
        w = spec['wls'][case['wl'] % len(spec['wls'])]
        rays = case['rays']
        Hy = float(rays[0][0])

        class PupilPoints:
            x = np.array([r[1] for r in rays], dtype=float)
            y = np.array([r[2] for r in rays], dtype=float)
        o.set_polarization(state)
        return o.trace(0.0, Hy, w, None, PupilPoints())

    def check_trace(self, case, out):
        spec = case['spec']
        out.cls(*GL.spec_classes(spec))
        # optionally the lens is queried and then edited (tilts and decentres through their variables included) before
        # the polarized trace: the invariants below hold for whatever lens the Optic is now
        o, _, edited = build_with_history(spec, case.get('edit'), warm_all)
        if edited:
            out.cls('traced_after_' + case['edit']['kind'] + '_edit')
        state = make_state(case['state'])
        out.cls('named_state' if 'name' in case['state'] else 'free_state')
        try:
            r = self.trace(o, case, state)
        except ValueError as e:
            if 'parallel to x-axis' in str(e):
                out.cls('k_parallel_x')
                return
            raise
        fin = np.isfinite(r.x) & np.isfinite(r.L) & np.isfinite(r.M) & np.isfinite(r.N)
        if not np.any(fin):
            out.cls('no_ray_survives')
            return
        g = np.where(fin)[0]
        out.close('intensity_preserved', np.asarray(r.i)[g], np.ones(len(g)), atol=1e-7)
        k0 = np.array([r._L0, r._M0, r._N0]).T[g] if hasattr(r, '_L0') else None
        k1 = np.array([r.L, r.M, r.N]).T[g]
        P = np.asarray(r.p)[g]
        # transversality: for any E0 perpendicular to k0, (P E0) . k1 = 0   <=>   k1^T P (I - k0 k0^T) = 0
        proj = np.eye(3)[None, :, :] - k0[:, :, None] * k0[:, None, :]
        lhs = np.einsum('ni,nij,njk->nk', k1, P, proj)
        out.close('field_stays_transverse', np.abs(lhs), 0.0, atol=1e-7)
        # isometry on the transverse plane
        M = np.einsum('nij,njk->nik', P, proj)
        G = np.einsum('nji,njk->nik', M.conj(), M)
        out.close('transverse_isometry', np.abs(G - proj), 0.0, atol=1e-7)
        nrefr = sum(1 for s in spec['surfs'] if s['mat']['kind'] != 'mirror')
        skew = bool(np.any(np.asarray(r._L0)[g] != 0) or any(rr[1] != 0 for rr in case['rays']))
        out.nt(nrefr >= 2 and skew)

    def check_coated(self, case, out):
        from optiland.rays import create_polarization
        spec = copy.deepcopy(case['spec'])
        for s in spec['surfs']:
            s['coat'] = 'fresnel'
        out.cls(*GL.spec_classes(spec))
        state = make_state(case['state'])
        perp = orthogonal_state(state)
        out.cls('named_state' if 'name' in case['state'] else 'free_state')
        vals = []
        for stt in (state, perp, create_polarization('unpolarized')):
            o = build(spec)
            # the image surface also separates two media only when the spec says so; coat every real interface
            try:
                r = self.trace(o, case, stt)
            except ValueError as e:
                if 'parallel to x-axis' in str(e):
                    out.cls('k_parallel_x')
                    return
                raise
            vals.append((np.asarray(r.i, dtype=float), np.isfinite(r.x) & np.isfinite(r.N)))
        fin = vals[0][1] & vals[1][1] & vals[2][1] & np.isfinite(vals[0][0]) & np.isfinite(vals[1][0])
        if not np.any(fin):
            out.cls('no_ray_survives')
            return
        g = np.where(fin)[0]
        i1, i2, iu = vals[0][0][g], vals[1][0][g], vals[2][0][g]
        out.close('unpolarized_is_mean_of_orthogonal_pair', iu, 0.5 * (i1 + i2), atol=1e-7, rtol=1e-7)
        out.nt(len(spec['surfs']) >= 2 and any(rr[1] != 0 for rr in case['rays']))


CHECK = C17()
