"""C11 - PSF, Strehl ratio and MTF are correctly normalised transforms of the pupil."""
import copy
import math

import numpy as np
from hypothesis import strategies as st

from vf.harness import Check
from vf.gen import lens as GL
from vf.gen.build import build

IMG = GL.Profile(max_surfs=5, shapes=['standard', 'standard', 'even_asphere'], allow_mirror=False, keep_edges=True,
                 rho_min=3.0, steep_prob=0.0, ap_types=['EPD', 'imageFNO'], max_field_deg=6.0, allow_vignetting=False,
                 max_n=2.0, zero_thickness=False, image_refracts=False, allow_apertures=True, positive_power=True)

f = st.floats


def ref_pupil(W, I, N):
    """Complex pupil from sampled OPD (waves) and intensity on the uniform N x N grid, by the documented rule."""
    g = np.linspace(-1, 1, N)
    X, Y = np.meshgrid(g, g)
    inside = (X ** 2 + Y ** 2 <= 1).ravel()        # the sample set of the 'uniform' distribution that carries W and I
    P = np.zeros(N * N, dtype=complex)
    amp = I / np.mean(I)
    P[inside] = amp * np.exp(2j * np.pi * W)
    return P.reshape(N, N), inside.reshape(N, N)


def ref_psf(P, G, explicit=False):
    """|DFT|^2 of the pupil embedded in a G x G array, DC at [G//2, G//2], unaberrated peak = 100."""
    N = P.shape[0]
    A = np.zeros((G, G), dtype=complex)
    A[:N, :N] = P
    if explicit:
        k = np.arange(G)
        Wm = np.exp(-2j * np.pi * np.outer(k, k) / G)
        F = Wm @ A @ Wm.T
    else:
        F = np.fft.fft2(A)
    psf = np.abs(F) ** 2
    psf = np.roll(np.roll(psf, G // 2, axis=0), G // 2, axis=1)
    norm = np.sum(np.abs(P)) ** 2
    return psf / norm * 100.0


class C11(Check):
    pid = 'C11'
    title = 'PSF, Strehl ratio and MTF are correctly normalised transforms of the pupil'
    rule = ('cases: generated imaging lenses (optionally defocused by an image shift, optionally with a clipping aperture) x '
            'field x pupil sampling N in {16..64 quick, ..256 thorough} x grid G in {64..257 quick, ..2048 thorough}, G >= N, '
            'both parities of G-N; infinite and finite conjugates. Oracle: pupil rebuilt from the sampled wavefront, PSF = '
            '|DFT|^2 by numpy FFT on my own embedding and by the explicit DFT sum (G <= 64), normalised to an unaberrated '
            'peak of 100; MTF bounds from the zero-phase pupil on the same grid; analytic circular-pupil MTF; frequency '
            'axis from the ABCD working F-number; geometric MTF from an independently traced spot. Non-trivial: (G,N) != '
            '(1024,128) and RMS wavefront >= 0.1 wave, or an unaberrated case with odd G-N. Distinct = distinct case hashes.')
    assumptions = ['frequency axis is observed through the x-data of the lines drawn by FFTMTF.view() under the Agg backend '
                   '(the class exposes no frequency array)',
                   'analytic MTF comparison tolerance 3/N (sampling of the pupil edge)']

    def budget(self, tier):
        return (60, 8) if tier == 'quick' else (300, 16)

    def strategy(self, tier):
        if tier == 'quick':
            N = st.one_of(st.sampled_from([16, 20, 24, 32, 33, 48, 64]), st.integers(16, 64))
            G = st.one_of(st.sampled_from([64, 65, 96, 128, 129, 256, 257]), st.integers(64, 300))
        else:
            N = st.one_of(st.sampled_from([16, 24, 32, 33, 64, 100, 128, 129, 200, 256]), st.integers(16, 256))
            G = st.one_of(st.sampled_from([64, 65, 128, 129, 256, 500, 512, 1000, 1024, 1025, 2048]), st.integers(64, 700))
        return st.fixed_dictionaries(dict(spec=GL.lens_spec(IMG, min_surfs=2), N=N, G=G, fld=st.integers(0, 5),
                                          defocus=st.one_of(st.just(0.0), f(-1.0, 1.0)), clip=st.booleans(),
                                          ideal=st.booleans(), mtf=st.booleans()))

    def describe(self, case):
        s = case['spec']
        return dict(N=case['N'], G=case['G'], fld=case['fld'], defocus=case['defocus'], clip=case['clip'],
                    ideal=case['ideal'], obj=s['obj'], ap=s['ap'], nsurf=len(s['surfs']))

    def check(self, case, out):
        from optiland.psf import FFTPSF
        spec = copy.deepcopy(case['spec'])
        N, G = case['N'], max(case['G'], case['N'])
        if not case['clip']:
            for q in spec['surfs']:
                q['ap'] = None
        if case['ideal']:
            # an unaberrated configuration: paraboloid mirror focus replaced by a near-perfect thin singlet is not exact;
            # use the closed-form plano-hyperbolic singlet (C06) instead
            from vf.gen.simple import spec as mk, surf, glass
            n = 1.5
            R = -30.0
            if case['N'] % 3 == 0:
                # or the other closed-form focusing element: a paraboloid mirror (one reflection: the rear focal length
                # of the ABCD description is negative there)
                from vf.gen.simple import MIRROR
                spec = mk([surf(R=-120.0, k=-1.0, t=-60.0, mat=MIRROR, stop=True)], ap=('EPD', 10.0), fields=(0.0,),
                          wls=(spec['wls'][0],))
            else:
                spec = mk([surf(R='inf', t=3.0, mat=glass(n), stop=True), surf(R=R, k=-n * n, t=R / (1 - n))],
                          ap=('EPD', 10.0), fields=(0.0,), wls=(spec['wls'][0],))
        out.cls(*GL.spec_classes(spec))
        out.cls('N%d' % N if N <= 64 else 'N>64', 'odd_padding' if (G - N) % 2 else 'even_padding')
        finite = spec['obj']['t'] != GL.INF
        if finite and spec['ftype'] == 'angle':
            ps0 = GL.parax_sys(spec)
            spec['ftype'] = 'object_height'
            spec['fields'] = [dict(fd, y=float(ps0.t_obj) * math.tan(math.radians(fd['y']))) for fd in spec['fields']]
        o = build(spec)
        ps = GL.parax_sys(spec)
        # any wavelength of the lens (the working F-number stays that of the primary wavelength, as the library defines it)
        w = spec['wls'][(case['fld'] // 2) % len(spec['wls'])] if not case['ideal'] else spec['wls'][spec['prim']]
        if w != spec['wls'][spec['prim']]:
            out.cls('non_primary_wavelength')
        ya, ua = ps.marginal(spec['ap']['type'], spec['ap']['value'])
        if not math.isfinite(ua[-1]) or abs(ua[-1]) < 1e-3:
            out.cls('slow_or_afocal')
            return
        # bring the image surface to the paraxial focus (then optionally defocus): a few waves at most
        ns, _ = GL.media(spec, w)
        if ns[-1] != ns[-2]:
            out.cls('image_surface_refracts')
            return
        o.image_solve()
        Fw = 1.0 / (2 * abs(ns[-1] * ua[-1]))
        if case['defocus'] and not case['ideal']:
            dz = case['defocus'] * 8 * (w * 1e-3) * Fw * Fw * 4      # up to ~4 waves of defocus
            o.surface_group.surfaces[-1].geometry.cs.z += dz
            out.cls('defocused')
        flds = o.fields.get_field_coords()
        fld = flds[case['fld'] % len(flds)]
        try:
            psf = FFTPSF(o, fld, w, num_rays=N, grid_size=G)
        except ValueError as e:
            if 'Chief ray' in str(e):
                out.cls('chief_ray_fails')
                return
            raise
        if case['fld'] % 2 == 0:
            # one case in two: the PSF is drawn before anything is read from it (what it reports must not depend on that)
            import matplotlib.pyplot as plt
            try:
                psf.view(projection='2d' if case['fld'] % 4 == 0 else '3d', log=bool(case['N'] % 2))
                out.cls('drawn_before_reading')
            except Exception:  # noqa  (a figure of undefined data is not part of the property)
                out.cls('view_raised')
            finally:
                plt.close('all')
        W = np.asarray(psf.data[0][0][0], dtype=float)
        I = np.asarray(psf.data[0][0][1], dtype=float)
        if not (np.all(np.isfinite(W)) and np.all(np.isfinite(I))):
            # failed rays: replace by zero amplitude like a clipped ray would be - the library propagates NaN
            out.cls('nan_in_pupil')
            return
        clipped = bool(np.any(I == 0))
        if clipped:
            out.cls('clipped_pupil')
        if np.mean(I) == 0:
            out.cls('empty_pupil')
            return
        P, inside = ref_pupil(W, I, N)
        lib = np.asarray(psf.psf, dtype=float)
        # shape: the PSF lives on the requested grid
        odd = (G - N) % 2 == 1
        shape_ok = out.expect('psf_on_requested_grid', lib.shape == (G, G), got=list(lib.shape), want=[G, G], N=N)
        out.expect('psf_non_negative', np.all(lib >= 0), minimum=float(np.min(lib)))
        Geff = lib.shape[0]
        ref = ref_psf(P, Geff, explicit=False)
        kf_clip = clipped and out.kf_open('C11-clipped-normalisation')
        scale = 1.0
        if kf_clip:
            # weakened relation: same shape, peak normalised with the count of non-zero samples
            out.region('C11-clipped-normalisation')
            scale = (np.sum(np.abs(P)) / np.count_nonzero(P)) ** 2
        pk = max(1.0, float(np.max(ref * scale)))
        out.close('psf_is_squared_modulus_of_dft', lib, ref * scale, atol=1e-9 * pk, rtol=1e-9, N=N, G=G)
        if Geff <= 64:
            ref2 = ref_psf(P, Geff, explicit=True)
            out.close('psf_equals_explicit_dft_sum', lib, ref2 * scale, atol=1e-8 * pk, rtol=1e-8, N=N, G=G)
            out.cls('explicit_dft')
        # energy: sum(psf) = G^2 sum|P|^2 / (sum|P|)^2 * 100, whatever the phase
        want_E = Geff ** 2 * np.sum(np.abs(P) ** 2) / np.sum(np.abs(P)) ** 2 * 100.0 * scale
        out.close('psf_total_energy', float(np.sum(lib)), want_E, rtol=1e-9)
        c = G // 2
        if shape_ok:
            S = float(psf.strehl_ratio())
            out.close('strehl_is_central_value', S, float(lib[c, c]) / 100.0, rtol=1e-14, atol=0)
            want_S = abs(np.sum(P)) ** 2 / np.sum(np.abs(P)) ** 2 * scale
            out.close('strehl_is_dc_term', S, want_S, rtol=1e-9, atol=1e-12)
            if not kf_clip:
                out.expect('strehl_at_most_one', S <= 1 + 1e-12, strehl=S)
            if case['ideal']:
                out.close('strehl_of_stigmatic_system', S, 1.0, atol=1e-6)
        rmsW = math.sqrt(float(np.mean((W - np.mean(W)) ** 2)))
        out.nt(((G, N) != (1024, 128) and rmsW >= 0.1) or (case['ideal'] and odd))
        if rmsW >= 0.1:
            out.cls('aberrated')
        if not case['mtf'] or not shape_ok:
            return
        self.check_mtf(case, out, o, ps, spec, fld, w, N, G, P, Fw, clipped)

    def check_mtf(self, case, out, o, ps, spec, fld, w, N, G, P, Fw, clipped):
        from optiland.mtf import FFTMTF, GeometricMTF
        m = FFTMTF(o, fields=[fld], wavelength=w, num_rays=N, grid_size=G)
        tan, sag = [np.asarray(v, dtype=float) for v in m.mtf[0]]
        # several fields in one call: each field's curves are those of that field analysed alone
        allf = o.fields.get_field_coords()
        if len(allf) >= 2 and G * G * len(allf) <= 4_000_000:
            mall = FFTMTF(o, fields='all', wavelength=w, num_rays=N, grid_size=G)
            for i, f_ in enumerate(allf):
                if tuple(map(float, f_)) == tuple(map(float, fld)):
                    for nm, got_, want_ in (('tangential', mall.mtf[i][0], tan), ('sagittal', mall.mtf[i][1], sag)):
                        out.close('mtf_of_field_in_a_multi_field_call', np.asarray(got_, dtype=float), want_, rtol=1e-12,
                                  atol=1e-12, curve=nm, field=i, n_fields=len(allf))
            out.cls('multi_field_mtf')
        # reference: |FFT| of my PSF, zero-phase bound on the same grid
        ref = ref_psf(P, G)
        ref0 = ref_psf(np.abs(P).astype(complex), G)
        c = G // 2

        def curves(psf_):
            M = np.abs(np.fft.fftshift(np.fft.fft2(psf_)))
            t, s = M[c:, c], M[c, c:]
            return t / t[0], s / s[0]
        rt, rs = curves(ref)
        bt, bs = curves(ref0)
        for name, got, want, bound in (('tangential', tan, rt, bt), ('sagittal', sag, rs, bs)):
            out.close('mtf_starts_at_one', got[0], 1.0, atol=1e-12, curve=name)
            out.expect('mtf_within_unit_interval', np.all(got >= -1e-12) and np.all(got <= 1 + 1e-9), curve=name,
                       worst=float(np.max(got)))
            out.close('mtf_is_transform_of_psf', got, want, atol=1e-8, curve=name)
            out.expect('mtf_below_diffraction_limit', np.all(got <= bound + 1e-9), curve=name,
                       worst=float(np.max(got - bound)))
        if case['ideal'] and G >= 2 * N and not clipped:
            k = np.arange(len(tan))
            nu = np.clip(k / (N - 1), 0, 1)       # pupil diameter = N-1 sample intervals
            phi = np.arccos(nu)
            ana = 2 / np.pi * (phi - np.cos(phi) * np.sin(phi))
            out.expect('mtf_of_circular_pupil', np.max(np.abs(tan - ana)) <= 3.0 / N and
                       np.max(np.abs(sag - ana)) <= 3.0 / N, worst=float(np.max(np.abs(tan - ana))), N=N)
        # frequency axis: observed on the drawn lines
        import matplotlib
        import matplotlib.pyplot as plt
        plt.close('all')
        m.view()
        ax = plt.gcf().axes[0]
        xs = np.asarray(ax.lines[0].get_xdata(), dtype=float)
        plt.close('all')
        cutoff = 1.0 / (w * 1e-3 * Fw)                  # cycles / mm
        # the autocorrelation of a pupil of diameter (N-1) samples vanishes at shift N-1: index k <-> k/(N-1) cut-off
        cut_lib = float(m.max_freq)      # judged separately (mtf_cutoff_value); here only the sampling of the axis
        want_x = np.arange(len(tan)) * cut_lib / (N - 1)
        want_x_alt = np.arange(len(tan)) * cut_lib / N     # diameter counted as N samples: also acceptable
        ok = np.allclose(xs, want_x, rtol=1e-6) or np.allclose(xs, want_x_alt, rtol=1e-6)
        out.expect('mtf_frequency_axis', ok, got_step=float(xs[1] - xs[0]) if len(xs) > 1 else None,
                   want_step=float(cut_lib / N), cutoff=cut_lib, N=N, G=G)
        if GL.media(spec, w)[0][-1] == 1.0:
            at, av = spec['ap']['type'], spec['ap']['value']
            finite = spec['obj']['t'] != GL.INF
            p_ref = ps.XPD(at, av) / ps.EPD(at, av) if finite else 1.0
            if finite and p_ref < 0 and out.kf_open('C11-inverted-pupil-fno'):
                # weakened relation inside the finding's region: the library's expression F (1 + |m| / p) evaluated
                # with the reference's signed pupil magnification
                out.region('C11-inverted-pupil-fno')
                F_ref = av if at == 'imageFNO' else abs(ps.f2()) / ps.EPD(at, av)
                F_lib = F_ref * (1 + abs(ps.magnification(at, av)) / p_ref)
                out.close('mtf_cutoff_value', float(m.max_freq), 1.0 / (w * 1e-3 * F_lib), rtol=1e-7,
                          convention='known finding region')
            else:
                out.close('mtf_cutoff_value', float(m.max_freq), cutoff, rtol=1e-8)
        else:
            out.cls('image_in_glass_cutoff_convention')     # F-number of an image formed in glass: convention, not judged
        # geometric MTF
        npts = 32
        # the uniform grid used here has more points than the PSF's own sampling checked above: if one of its rays fails
        # the spot has no histogram (numpy rejects a NaN range) and there is no geometric MTF to judge
        o.trace(fld[0], fld[1], w, N // 2 + 3, 'uniform')
        if not (np.all(np.isfinite(np.array(o.surface_group.x[-1], dtype=float))) and
                np.all(np.isfinite(np.array(o.surface_group.y[-1], dtype=float)))):
            out.cls('geometric_mtf_rays_fail')
            return
        for scale_flag in (False, True):
            gm = GeometricMTF(o, fields=[fld], wavelength=w, num_rays=N // 2 + 3, distribution='uniform', num_points=npts,
                              scale=scale_flag)
            out.close('geometric_cutoff', float(gm.max_freq), 1.0 / (w * 1e-3 * float(o.paraxial.FNO())), rtol=1e-12)
            o.trace(fld[0], fld[1], w, N // 2 + 3, 'uniform')
            xi = np.array(o.surface_group.x[-1], dtype=float)
            yi = np.array(o.surface_group.y[-1], dtype=float)
            if not (np.all(np.isfinite(xi)) and np.all(np.isfinite(yi))):
                return
            freq = np.linspace(0, gm.max_freq, npts)
            out.close('geometric_freq', np.asarray(gm.freq), freq, rtol=1e-13)
            for name, data, got in (('tangential', yi, gm.mtf[0][0]), ('sagittal', xi, gm.mtf[0][1])):
                A, edges = np.histogram(data, bins=npts + 1)
                x = 0.5 * (edges[1:] + edges[:-1])
                ft = np.abs(np.array([np.sum(A * np.exp(-2j * np.pi * v * x)) for v in freq])) / np.sum(A)
                if scale_flag:
                    ph = np.arccos(freq / gm.max_freq)
                    ft = ft * 2 / np.pi * (ph - np.cos(ph) * np.sin(ph))
                out.close('geometric_mtf_is_transform_of_line_spread', np.asarray(got, dtype=float), ft, atol=1e-10,
                          curve=name, scaled=scale_flag)
        out.cls('mtf_checked')


CHECK = C11()
