"""C04 - paraxial properties equal matrix optics (ABCD reference)."""
import math

import numpy as np
from hypothesis import strategies as st

from vf.harness import Check
from vf.gen import lens as GL
from vf.gen.build import build, used_optic
from vf.gen import samples as GS
from vf.gen.edit import edit_strategy, apply_edit, maybe_reload


def _f(x):
    return float(np.ravel(np.asarray(x, dtype=float))[0])


class C04(Check):
    pid = 'C04'
    title = 'Paraxial properties equal matrix optics'
    rule = ('cases: generated axially symmetric prescriptions (profile "paraxial": 1-10 spheres/conics/even aspheres/'
            'planes/mirrors, ideal and catalogue media, object medium n0!=1, negative thickness after mirrors, any stop, '
            'finite/infinite object, EPD/imageFNO/objectNA, angle/object-height fields), optionally followed by one edit '
            '(set_index / set_radius / set_thickness / stop moved) of the same Optic after which every accessor is queried '
            'again and compared with the reference of the edited prescription; + the 24 bundled samples. '
            'Oracle: ABCD matrices in (y, n*u) with index sign reversal at mirrors, built from the spec (not from the '
            'library). Non-trivial: >=3 powered surfaces, stop not on surface 1, and (mirror or finite object or negative '
            'power). Distinct = distinct spec hashes.')
    assumptions = ['f2() is compared with the rear focal length n\'/phi, f1() with -n0/phi (what the library\'s '
                   'principal-plane formulas P = F - f mean)',
                   'XPL/XPD are compared only when the image surface does not refract (exit-pupil convention for an image '
                   'plane that is itself a glass/air interface is not defined by the property)',
                   'focal quantities are compared only for conditioning sum|phi_i|/|phi| <= 1e5 (afocal systems: only '
                   'ray arrays, pupils, invariant)',
                   'bundled samples: reference built from the prescription read back from public attributes']

    def budget(self, tier):
        return (400, 8) if tier == 'quick' else (6000, 16)

    def strategy(self, tier):
        return st.fixed_dictionaries(dict(kind=st.just('spec'), spec=GL.lens_spec('paraxial'),
                                          edit=edit_strategy(('index', 'radius', 'thickness', 'stop')),
                                          reuse=st.sampled_from([False, False, False, True])))

    def fixed_cases(self, tier):
        return [dict(kind='sample', name=n) for n in GS.sample_names()]

    def describe(self, case):
        if case['kind'] == 'sample':
            return case
        s = case['spec']
        return dict(kind='spec', obj=s['obj'], ap=s['ap'], ftype=s['ftype'], fields=[f['y'] for f in s['fields']],
                    surfs=[dict(R=q['R'], k=q['k'], t=q['t'], mat=q['mat'], stop=q['stop'], type=q['type'])
                           for q in s['surfs']])

    def check(self, case, out):
        if case['kind'] == 'sample':
            self.core(case, out, GS.make_sample(case['name']), None)
            return
        spec = case['spec']
        if case.get('reuse'):
            o = build(spec, optic=used_optic())        # an Optic that held another lens and was reset()
            out.cls('optic_reset_and_reused')
        else:
            o = build(spec)
        self.core(case, out, o, spec)
        ed = case.get('edit')
        if ed:
            # history on one Optic: query everything, edit through the public setters, query everything again
            o = maybe_reload(o, ed)
            spec2 = apply_edit(o, spec, ed)
            if spec2 is not None:
                out.cls('requeried_after_' + ed['kind'] + '_edit')
                self.core(case, out, o, spec2)

    def core(self, case, out, o, spec):
        if case['kind'] == 'sample':
            ps = GS.parax_from_optic(o)
            out.cls('sample')
            at, av = o.aperture.ap_type, o.aperture.value
            ftype, mf = o.field_type, float(o.fields.max_y_field)
            image_refracts = False
            sg = o.surface_group
            n_img_pre = _f(sg.surfaces[-1].material_pre.n(o.primary_wavelength))
            n_img_post = _f(sg.surfaces[-1].material_post.n(o.primary_wavelength))
            image_refracts = abs(n_img_pre - n_img_post) > 1e-12
            Lscale = max(1.0, float(np.nanmax(np.abs(np.ravel(sg.positions)[1:]))))
            powered = sum(1 for c in ps.c if c != 0)
            out.nt(True)
        else:
            ps = GL.parax_sys(spec)
            out.cls(*GL.spec_classes(spec))
            at, av = spec['ap']['type'], spec['ap']['value']
            ftype, mf = spec['ftype'], GL.max_field(spec)
            image_refracts = 'image_refracts' in GL.spec_classes(spec)
            Lscale = max(1.0, sum(abs(s['t']) for s in spec['surfs']))
            powered = sum(1 for j, c in enumerate(ps.c) if c != 0 and (ps.mirror[j] or ps.n_abs[j] != ps.n_abs[j + 1]))
        P = o.paraxial
        K1 = ps.K1
        # conditioning by finite perturbation: the same reference with every input changed by 1e-13 relative
        from vf.ref.paraxial import ParaxSys
        pert = lambda v, i: v * (1 + 1e-13 * (1 if (i * 7919) % 3 else -1))  # noqa
        ps2 = ParaxSys([pert(v, i) for i, v in enumerate(ps.c)], [pert(v, i + 1) for i, v in enumerate(ps.t)],
                       [pert(v, i + 2) for i, v in enumerate(ps.n_abs)], ps.mirror, pert(ps.t_obj, 5), ps.stop)

        def sens(fn):
            # 1e4 x the change caused by 1e-13 input perturbations == what 1e-9 input noise could do
            try:
                a, b = np.asarray(fn(ps), dtype=float), np.asarray(fn(ps2), dtype=float)
                d = np.abs(a - b)
                d = np.where(np.isfinite(d), d, 0.0)
                return 1e4 * float(np.max(d)) if d.size else 0.0
            except Exception:  # noqa
                return 0.0
        phis = [abs((ps.n[j + 1] - ps.n[j]) * ps.c[j]) for j in range(K1)]
        phi = ps.power()
        cond = (sum(phis) / abs(phi)) if phi != 0 else math.inf
        # accumulated size of intermediate quantities also matters: add ray-height growth
        focal_ok = math.isfinite(cond) and cond <= 1e5
        rt = 1e-9
        if not focal_ok:
            out.cls('afocal_or_illconditioned')
        neg = focal_ok and ps.f2() < 0
        if neg:
            out.cls('neg_rear_focal_length')
        odd = ps.parity[K1] < 0

        def sc(v):
            return max(abs(float(v)), Lscale)

        if focal_ok:
            f1r, f2r, F1r, F2r = ps.f1(), ps.f2(), ps.F1(), ps.F2()
            out.close('f1', _f(P.f1()), f1r, rtol=rt, scale=sc(f1r), atol=sens(lambda q: q.f1()))
            out.close('F1', _f(P.F1()), F1r, rtol=rt, scale=sc(F1r), atol=sens(lambda q: q.F1()))
            out.close('F2', _f(P.F2()), F2r, rtol=rt, scale=sc(F2r), atol=sens(lambda q: q.F2()))
            out.close('P1', _f(P.P1()), ps.P1(), rtol=rt, scale=sc(F1r) + sc(f1r), atol=sens(lambda q: q.P1()))
            out.close('N2', _f(P.N2()), ps.N2(), rtol=rt, scale=sc(F2r) + sc(f1r) + sc(f2r), atol=sens(lambda q: q.N2()))
            weak = neg and out.kf_open('C04-f2-abs')
            if weak:
                out.region('C04-f2-abs')
                f2w = abs(f2r)
            else:
                f2w = f2r
            out.close('f2', _f(P.f2()), f2w, rtol=rt, scale=sc(f2r), ref_signed=f2r, atol=sens(lambda q: q.f2()))
            out.close('P2', _f(P.P2()), F2r - f2w, rtol=rt, scale=sc(F2r) + sc(f2r), atol=sens(lambda q: q.P2()))
            out.close('N1', _f(P.N1()), ps.P1() + f1r + f2w, rtol=rt, scale=sc(F1r) + sc(f1r) + sc(f2r), atol=sens(lambda q: q.N1()))
            epd_r = ps.EPD(at, av)
            if at == 'imageFNO':
                out.close('FNO', _f(P.FNO()), av, rtol=1e-12)
            elif math.isfinite(epd_r) and epd_r != 0:
                out.close('FNO', _f(P.FNO()), f2w / epd_r, rtol=rt, scale=abs(f2r / epd_r), atol=sens(lambda q: q.FNO(at, av)))
        # pupils
        EPLr = ps.EPL()
        if math.isfinite(EPLr):
            out.close('EPL', _f(P.EPL()), EPLr, rtol=rt, scale=sc(EPLr), atol=sens(lambda q: q.EPL()))
        epd_ok = at != 'imageFNO' or focal_ok
        if not epd_ok:
            return
        EPDr = ps.EPD(at, av)
        if not (math.isfinite(EPDr) and math.isfinite(EPLr)):
            out.cls('pupil_not_finite')
            return
        out.close('EPD', _f(P.EPD()), EPDr, rtol=rt, scale=abs(EPDr), atol=sens(lambda q: q.EPD(at, av)))
        # rays
        ya, ua = P.marginal_ray()
        ya, ua = np.ravel(ya), np.ravel(ua)
        rya, rua = [np.array(v, dtype=float) for v in ps.marginal(at, av)]
        ysc = max(np.nanmax(np.abs(rya)), abs(EPDr))
        usc = max(np.nanmax(np.abs(rua)), ysc / Lscale)
        good = np.all(np.isfinite(rya)) and np.all(np.isfinite(rua))
        if not good:
            out.cls('ray_overflow')
            return
        out.expect('marginal_len', len(ya) == K1 + 1 and len(ua) == K1 + 1, got=len(ya), want=K1 + 1)
        if len(ya) != K1 + 1:
            return
        out.close('marginal_y', ya[1:], rya, rtol=rt, scale=ysc, atol=sens(lambda q: q.marginal(at, av)[0]))
        out.close('marginal_u', ua[1:], rua, rtol=rt, scale=usc, atol=sens(lambda q: q.marginal(at, av)[1]))
        if mf > 0:
            yb, ub = P.chief_ray()
            yb, ub = np.ravel(yb), np.ravel(ub)
            ryb, rub = [np.array(v, dtype=float) for v in ps.chief(ftype, mf)]
            if np.all(np.isfinite(ryb)) and np.all(np.isfinite(rub)) and len(yb) == K1 + 1:
                bsc = max(np.nanmax(np.abs(ryb)), 1e-3 * Lscale)
                busc = max(np.nanmax(np.abs(rub)), bsc / Lscale)
                out.close('chief_y', yb[1:], ryb, rtol=rt, scale=bsc, atol=sens(lambda q: q.chief(ftype, mf)[0]))
                out.close('chief_u', ub[1:], rub, rtol=rt, scale=busc, atol=sens(lambda q: q.chief(ftype, mf)[1]))
                # chief ray passes through the centre of the stop
                out.close('chief_through_stop', yb[ps.stop], 0.0, atol=rt * bsc + sens(lambda q: q.chief(ftype, mf)[0]))
                # Lagrange invariant from the *returned* arrays, signed indices
                nsg = np.array(ps.n[1:], dtype=float)
                H = nsg * (yb[1:] * ua[1:] - ya[1:] * ub[1:])
                Hr = ps.invariant(at, av, ftype, mf)
                hsc = max(abs(Hr), ysc * busc, bsc * usc) * max(1.0, np.max(np.abs(nsg)))
                hs = sens(lambda q: q.invariant(at, av, ftype, mf)) + 10 * (ysc * sens(lambda q: q.chief(ftype, mf)[1]) + busc * sens(lambda q: q.marginal(at, av)[0]) + bsc * sens(lambda q: q.marginal(at, av)[1]) + usc * sens(lambda q: q.chief(ftype, mf)[0]))
                out.close('invariant_constant', H, np.full_like(H, Hr), rtol=rt * 10, scale=hsc, atol=hs)
                flip = ps.parity[1] < 0
                if flip and out.kf_open('C04-invariant-sign'):
                    out.region('C04-invariant-sign')
                    out.close('invariant', abs(_f(P.invariant())), abs(Hr), rtol=rt * 10, scale=hsc, atol=hs)
                else:
                    out.close('invariant', _f(P.invariant()), Hr, rtol=rt * 10, scale=hsc, atol=hs)
        # magnification
        if focal_ok or not math.isinf(ps.t_obj):
            mr = ps.magnification(at, av)
            # conditioning: m = n0 u0 / (n' u'); an (almost) collimated output makes it meaningless
            if math.isfinite(mr) and abs(rua[-1]) > 1e-6 * usc:
                if odd and out.kf_open('C04-magnification-sign'):
                    out.region('C04-magnification-sign')
                    out.close('magnification', abs(_f(P.magnification())), abs(mr), rtol=rt, scale=max(abs(mr), 1e-12), atol=sens(lambda q: q.magnification(at, av)))
                else:
                    out.close('magnification', _f(P.magnification()), mr, rtol=rt, scale=max(abs(mr), 1e-12), atol=sens(lambda q: q.magnification(at, av)))
        # exit pupil
        if not image_refracts:
            XPLr = ps.XPL()
            if math.isfinite(XPLr) and abs(XPLr) < 1e9 * Lscale:
                out.close('XPL', _f(P.XPL()), XPLr, rtol=rt, scale=sc(XPLr), atol=sens(lambda q: q.XPL()))
                XPDr = ps.XPD(at, av)
                out.close('XPD', _f(P.XPD()), XPDr, rtol=rt * 10, scale=max(abs(XPDr), ysc, abs(usc * XPLr)), atol=sens(lambda q: q.XPD(at, av)))
        else:
            out.cls('xp_skipped_image_refracts')
        # linearity of the generic paraxial trace
        if case['kind'] == 'spec':
            lin = case.get('lin') or [0.7, -1.3, 0.4, 0.02, -0.6, -0.05]
            a, b, y1, u1, y2, u2 = lin
            w = o.primary_wavelength
            z0 = -1.0
            Y1, U1 = [np.ravel(v).copy() for v in P._trace_generic(y1, u1, z0, w)]
            Y2, U2 = [np.ravel(v).copy() for v in P._trace_generic(y2, u2, z0, w)]
            Y3, U3 = [np.ravel(v).copy() for v in P._trace_generic(a * y1 + b * y2, a * u1 + b * u2, z0, w)]
            lsc = max(np.max(np.abs(Y1)), np.max(np.abs(Y2)), 1e-9)
            lus = max(np.max(np.abs(U1)), np.max(np.abs(U2)), 1e-9)
            if math.isfinite(lsc) and math.isfinite(lus):
                out.close('linear_y', Y3, a * Y1 + b * Y2, rtol=1e-10, scale=lsc * 3)
                out.close('linear_u', U3, a * U1 + b * U2, rtol=1e-10, scale=lus * 3)
                # and against the reference: ray (y1,u1) given at z=-1 in object space
                ry, ru = ps.trace(y1 + u1 * 1.0, u1)
                out.close('generic_trace_y', Y1[1:], np.array(ry, dtype=float), rtol=rt, scale=lsc, atol=sens(lambda q: q.trace(y1 + u1 * 1.0, u1)[0]))
                out.close('generic_trace_u', U1[1:], np.array(ru, dtype=float), rtol=rt, scale=lus, atol=sens(lambda q: q.trace(y1 + u1 * 1.0, u1)[1]))
        out.nt(powered >= 3 and ps.stop != 1 and (any(ps.mirror) or not math.isinf(ps.t_obj) or neg))


CHECK = C04()
