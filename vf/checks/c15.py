"""C15 - tolerancing reports true perturbed performance and restores the nominal lens."""
import contextlib
import copy
import io
import json
import math

import numpy as np
from hypothesis import strategies as st

from vf.harness import Check
from vf.gen import lens as GL
from vf.gen.build import build
from vf.checks.c14 import OPT, lens_state, quiet
from vf.checks.c07 import dict_close

f = st.floats
sel = st.integers(0, 1000)
OPERANDS = ['f2', 'rms_spot_size', 'real_y_intercept', 'TSC_sum', 'F2']
VARTYPES = ['radius', 'thickness', 'conic', 'index', 'tilt', 'decenter', 'asphere_coeff']


class C15(Check):
    pid = 'C15'
    title = 'Tolerancing reports true perturbed performance and restores the nominal lens'
    rule = ('cases: generated lens x 1-3 operands x 1-4 perturbations (radius, thickness, conic, index, tilt, decenter, '
            'asphere coefficient; RangeSampler for the sensitivity analysis, Scalar / Range / seeded Distribution samplers for '
            'Monte Carlo; values equal to nominal and values that make rays fail included) x {no compensator, thickness or '
            'radius compensator with the generic or least-squares optimiser} x 1-6 trials. Oracle (differential): every '
            'result row is replayed on a fresh twin lens built from the spec - apply the recorded perturbation values, run the '
            'same compensation, evaluate the operands; nominal-value perturbations reproduce nominal operands; two runs with '
            'the same seeds give identical tables; the serialised lens after run() and after reset() equals the nominal '
            'snapshot. Non-trivial: >= 2 perturbations of different types and >= 3 trials. Distinct = distinct case hashes.')
    assumptions = ['the twin is brought to the perturbed state through Variable(..., apply_scaling=False).update(value), the '
                   'documented meaning of a perturbation value (absolute value of the variable)',
                   'DistributionSampler seeds numpy\'s global generator: reproducibility is claimed for identically '
                   'constructed set-ups run one after the other']

    def budget(self, tier):
        return (40, 8) if tier == 'quick' else (200, 16)

    def strategy(self, tier):
        operand = st.fixed_dictionaries(dict(type=st.sampled_from(OPERANDS), h=f(0.0, 1.0)))
        pert = st.fixed_dictionaries(dict(type=st.sampled_from(VARTYPES), s=sel, axis=st.sampled_from(['x', 'y']),
                                          sampler=st.sampled_from(['range', 'scalar', 'normal', 'uniform', 'nominal', 'fail']),
                                          mag=f(0.001, 0.05), steps=st.integers(1, 5),
                                          seed=st.one_of(st.sampled_from([0, 0, 1]), st.integers(0, 10 ** 6))))
        return st.fixed_dictionaries(dict(spec=GL.lens_spec(OPT, min_surfs=2), operands=st.lists(operand, min_size=1, max_size=3),
                                          perts=st.lists(pert, min_size=1, max_size=4),
                                          comp=st.sampled_from(['none', 'none', 'thickness', 'radius', 'asphere']),
                                          method=st.sampled_from(['generic', 'least_squares']),
                                          mode=st.sampled_from(['sensitivity', 'monte_carlo', 'monte_carlo']),
                                          iters=st.integers(1, 6), pickup=st.booleans()))

    def describe(self, case):
        s = case['spec']
        return dict(mode=case['mode'], comp=case['comp'], method=case['method'], iters=case['iters'],
                    operands=[o['type'] for o in case['operands']],
                    perts=[(p['type'], p['sampler']) for p in case['perts']], nsurf=len(s['surfs']))

    # ------------------------------------------------------------------
    def operand_data(self, od, o, K):
        w = o.primary_wavelength
        t = od['type']
        data = {'optic': o}
        if t == 'rms_spot_size':
            data.update(surface_number=-1, Hx=0.0, Hy=round(od['h'], 3), num_rays=2, wavelength=w, distribution='hexapolar')
        elif t == 'real_y_intercept':
            data.update(surface_number=-1, Hx=0.0, Hy=round(od['h'], 3), Px=0.0, Py=0.7, wavelength=w)
        return t, data

    def plan(self, case, spec, o, mode):
        """-> list of (variable_type, kwargs, nominal, sampler_description) with distinct targets"""
        from optiland.optimization.variable.variable import Variable
        K = len(spec['surfs'])
        used = set()
        out = []
        for pd_ in case['perts']:
            vt = pd_['type']
            kw = {}
            if vt in ('radius', 'conic'):
                cand = [k for k in range(1, K + 1) if spec['surfs'][k - 1]['R'] != GL.INF]
            elif vt == 'thickness':
                # any gap but the last (left to the compensator); the object distance too when it is finite
                cand = ([0] if spec['obj']['t'] != GL.INF else []) + list(range(1, K))
            elif vt == 'index':
                cand = [k for k in range(1, K + 1) if spec['surfs'][k - 1]['mat']['kind'] == 'ideal']
                kw['wavelength'] = o.primary_wavelength
            elif vt == 'asphere_coeff':
                cand = [k for k in range(1, K + 1) if spec['surfs'][k - 1]['type'] == 'even_asphere' and
                        spec['surfs'][k - 1]['coef']]
                kw['coeff_number'] = 0
            else:
                cand = list(range(1, K + 1))
                kw['axis'] = pd_['axis']
            cand = [k for k in cand if (vt, k, kw.get('axis')) not in used and not (case['comp'] == 'radius' and vt == 'radius'
                                                                                      and k == self.comp_surface)
                    and not (self.pick and vt == 'radius' and k in self.pick)
                    and not (vt == 'asphere_coeff' and self.comp_asphere == k)]
            if not cand:
                continue
            k = cand[pd_['s'] % len(cand)]
            used.add((vt, k, kw.get('axis')))
            kw['surface_number'] = k
            with contextlib.redirect_stdout(io.StringIO()):
                nominal = float(np.ravel(Variable(o, vt, apply_scaling=False, **kw).value)[0])
            span = {'radius': pd_['mag'] * abs(nominal), 'thickness': pd_['mag'] * (abs(nominal) + 1.0), 'conic': pd_['mag'] * 5,
                    'index': pd_['mag'] * 0.2, 'tilt': pd_['mag'] * 0.2, 'decenter': pd_['mag'] * 2.0,
                    'asphere_coeff': pd_['mag'] * (abs(nominal) + 1e-7)}[vt]
            samp = pd_['sampler']
            if mode == 'sensitivity' and samp not in ('nominal', 'fail'):
                samp = 'range'
            seed = pd_['seed']
            if samp in ('normal', 'uniform'):
                # "seed the first sampler only" is a reproducible set-up too: the samplers share numpy's global generator
                if any(p[3] in ('normal', 'uniform') for p in out) and seed % 3 == 0:
                    seed = None
            out.append((vt, kw, nominal, samp, span, pd_['steps'], seed))
        return out

    @staticmethod
    def write_into_spec(spec, vt, kw, val):
        from vf.gen.simple import glass
        k = kw['surface_number']
        q = spec['surfs'][k - 1] if k >= 1 else None
        if vt == 'radius':
            q['R'] = val
        elif vt == 'conic':
            q['k'] = val
        elif vt == 'thickness':
            if k == 0:
                spec['obj']['t'] = val
            else:
                q['t'] = val
        elif vt == 'index':
            q['mat'] = glass(val)
        elif vt == 'tilt':
            q['r' + kw['axis']] = val
        elif vt == 'decenter':
            q['d' + kw['axis']] = val
        elif vt == 'asphere_coeff':
            q['coef'] = list(q['coef'])
            q['coef'][kw.get('coeff_number', 0)] = val
        else:
            raise ValueError(vt)

    def make_sampler(self, samp, nominal, span, steps, seed, vt, mode):
        from optiland.tolerancing.perturbation import ScalarSampler, RangeSampler, DistributionSampler
        if samp == 'range':
            return RangeSampler(nominal - span, nominal + span, max(steps, 1))
        if samp == 'nominal':
            return RangeSampler(nominal, nominal, 1) if mode == 'sensitivity' else ScalarSampler(nominal)
        if samp == 'fail':
            # a value for which rays fail (radius smaller than the beam, huge tilt ...): operands become undefined
            bad = {'radius': 0.05 * (1 if nominal >= 0 else -1), 'tilt': 1.5, 'decenter': 1e4, 'index': 1e-3,
                   'thickness': nominal, 'conic': nominal, 'asphere_coeff': nominal}[vt]
            return RangeSampler(bad, bad, 1) if mode == 'sensitivity' else ScalarSampler(bad)
        if samp == 'scalar':
            return ScalarSampler(nominal + 0.5 * span)
        if samp == 'normal':
            return DistributionSampler('normal', seed=seed, loc=nominal, scale=span / 2)
        return DistributionSampler('uniform', seed=seed, low=nominal - span, high=nominal + span)

    def setup(self, case, spec, with_perts=True, targets=None):
        from optiland.tolerancing.core import Tolerancing
        o = build(spec)
        K = len(spec['surfs'])
        self.comp_surface = None
        asp_ = [k for k in range(1, K + 1) if spec['surfs'][k - 1]['type'] == 'even_asphere' and
                len(spec['surfs'][k - 1]['coef'] or []) >= 2]
        self.comp_asphere = asp_[-1] if (case['comp'] == 'asphere' and asp_) else None
        fin = [k for k in range(1, K + 1) if spec['surfs'][k - 1]['R'] != GL.INF]
        if case['comp'] == 'radius' and fin:
            self.comp_surface = fin[-1]
        # optionally a radius pickup whose source is the radius compensator's surface: the compensation then moves a second
        # surface through the pickup
        self.pick = None
        if case.get('pickup') and len(fin) >= 2 and case['comp'] == 'radius':
            self.pick = (fin[-1], fin[0])
            o.pickups.add(fin[-1], 'radius', fin[0], scale=-1.0, offset=0.0)
            o.update()
        tol = Tolerancing(o, method=case['method'], tol=1e-6)
        for od in case['operands']:
            t, data = self.operand_data(od, o, K)
            tol.add_operand(t, data)
        if targets is not None:
            # operands added to an already perturbed lens would take the perturbed values as their targets; the
            # compensation aims at the nominal values
            for op, tg in zip(tol.operands, targets):
                op.target = tg
        plan = self.plan(case, spec, o, case['mode'])
        if with_perts:
            for (vt, kw, nominal, samp, span, steps, seed) in plan:
                with contextlib.redirect_stdout(io.StringIO()):
                    tol.add_perturbation(vt, self.make_sampler(samp, nominal, span, steps, seed, vt, case['mode']), **kw)
        if case['comp'] == 'thickness':
            with contextlib.redirect_stdout(io.StringIO()):
                tol.add_compensator('thickness', surface_number=K)
        elif case['comp'] == 'radius' and self.comp_surface:
            with contextlib.redirect_stdout(io.StringIO()):
                tol.add_compensator('radius', surface_number=self.comp_surface)
        elif case['comp'] == 'asphere':
            asp = [k for k in range(1, K + 1) if spec['surfs'][k - 1]['type'] == 'even_asphere' and
                   len(spec['surfs'][k - 1]['coef'] or []) >= 2]
            if asp:
                with contextlib.redirect_stdout(io.StringIO()):
                    tol.add_compensator('asphere_coeff', surface_number=asp[-1], coeff_number=1)
        return o, tol, plan

    def run(self, case, tol):
        from optiland.tolerancing.sensitivity_analysis import SensitivityAnalysis
        from optiland.tolerancing.monte_carlo import MonteCarlo
        if case['mode'] == 'sensitivity':
            an = SensitivityAnalysis(tol)
            quiet(an.run)
        else:
            an = MonteCarlo(tol)
            quiet(an.run, case['iters'])
        return an.get_results()

    def check(self, case, out):
        from optiland.optimization.variable.variable import Variable
        spec = copy.deepcopy(case['spec'])
        out.cls(*GL.spec_classes(spec))
        out.cls('mode_' + case['mode'], 'comp_' + case['comp'], 'method_' + case['method'])
        o, tol, plan = self.setup(case, spec)
        if self.pick:
            out.cls('compensator_is_a_pickup_source')
        if not plan:
            out.cls('no_applicable_perturbation')
            return
        nominal_ops = [float(np.ravel(v)[0]) for v in tol.evaluate()]
        targets0 = [op.target for op in tol.operands]
        if not all(map(math.isfinite, nominal_ops)):
            out.cls('nominal_operand_undefined')
            return
        snap = lens_state(o)
        Lsc = max(1.0, sum(abs(q['t']) for q in spec['surfs']))
        for p in plan:
            out.cls('pert_' + p[0], 'sampler_' + p[3])
        df = self.run(case, tol)
        # the lens is back at nominal when the run completes, and after reset()
        diff = dict_close(lens_state(o), snap, 1e-12)
        out.expect('lens_nominal_after_run', diff is None, diff=diff, mode=case['mode'])
        tol.reset()
        diff = dict_close(lens_state(o), snap, 1e-12)
        out.expect('lens_nominal_after_reset', diff is None, diff=diff, mode=case['mode'])
        # seeded samplers: an identically constructed set-up gives the same table
        o2, tol2, _ = self.setup(case, spec)
        df2 = self.run(case, tol2)
        def col_equal(a, b):
            try:
                return np.array_equal(np.asarray(a, dtype=float), np.asarray(b, dtype=float), equal_nan=True)
            except (ValueError, TypeError):
                return [str(x) for x in a] == [str(x) for x in b]
        same = df.shape == df2.shape and list(df.columns) == list(df2.columns) and all(
            col_equal(df[c].values, df2[c].values) for c in df.columns)
        out.expect('seeded_run_is_reproducible', same, mode=case['mode'])
        # replay every row on a fresh twin
        names = ['%d: %s' % (i, op) for i, op in enumerate(tol.operands)]
        pert_names = {}
        for (vt, kw, nominal, samp, span, steps, seed) in plan:
            with contextlib.redirect_stdout(io.StringIO()):
                pert_names[str(Variable(o, vt, apply_scaling=False, **kw).variable)] = (vt, kw, nominal)
        rows = df.to_dict('records')
        has_comp = case['comp'] != 'none' and tol.compensator.has_variables
        for ri, row in enumerate(rows[:8]):
            applied = []
            if case['mode'] == 'sensitivity':
                applied = [(row['perturbation_type'], row['perturbation_value'])]
            else:
                applied = [(k, row[k]) for k in pert_names if k in row]
            # the fresh copy: the nominal prescription with the recorded values written into it, built from scratch
            # (not brought there through the library's own setters, which the run itself uses)
            pspec = copy.deepcopy(spec)
            for pname, val in applied:
                if pname not in pert_names:
                    out.fail('row_names_a_known_perturbation', name=pname)
                    continue
                vt, kw, nominal = pert_names[pname]
                self.write_into_spec(pspec, vt, kw, float(val))
            twin, ttol, _ = self.setup(case, pspec, with_perts=False, targets=targets0)
            got = [float(row[n]) for n in names]
            if has_comp:
                # stage (1) repeats the library's own sequence (nominal lens, values set through the variable handles,
                # compensation) so that the optimiser starts from the same floating-point state: an ill-conditioned
                # compensation started one ulp away can end somewhere else entirely
                twin1, ttol1, _ = self.setup(case, spec, with_perts=False)
                for pname, val in applied:
                    if pname in pert_names:
                        vt, kw, nominal = pert_names[pname]
                        with contextlib.redirect_stdout(io.StringIO()):
                            Variable(twin1, vt, apply_scaling=False, **kw).update(float(val))
                comp_vals = quiet(ttol1.apply_compensators)
                want = [float(np.ravel(v)[0]) for v in ttol1.evaluate()]
                # conditioning of the compensation by finite perturbation: the same again on a third copy whose
                # compensators start 1e-12 (relative) away; if that alone moves the end point, equality with the recorded
                # run is not decidable for this trial (stage 2 below still is)
                twin3, ttol3, _ = self.setup(case, spec, with_perts=False)
                for pname, val in applied:
                    if pname in pert_names:
                        vt, kw, nominal = pert_names[pname]
                        with contextlib.redirect_stdout(io.StringIO()):
                            Variable(twin3, vt, apply_scaling=False, **kw).update(float(val))
                for var in ttol3.compensator.variables:
                    v0 = float(np.ravel(var.value)[0])
                    var.update(v0 * (1 + 1e-12) + 1e-15)
                comp3 = quiet(ttol3.apply_compensators)
                stable = all(abs(float(np.ravel(comp3[k])[0]) - float(np.ravel(comp_vals[k])[0])) <=
                             1e-4 * abs(float(np.ravel(comp_vals[k])[0])) + 1e-7 for k in comp_vals if k in comp3)
            else:
                comp_vals = {}
                want = [float(np.ravel(v)[0]) for v in ttol.evaluate()]
            # operand values are defined to ~1e-12 of the lens scale (an intercept on the axis is 0 +- round-off)
            sc = [max(abs(a), abs(b), 1e-3 * Lsc) for a, b in zip(nominal_ops, want)]
            if has_comp:
                # (1) the same compensation on the fresh copy ends where the recorded one did, to the optimiser's
                #     tolerance (its path depends on round-off of the state it starts from).  Not when an operand is
                #     undefined for this trial: the compensator then minimises a constant penalty and ends anywhere.
                if not stable:
                    out.cls('compensation_ill_conditioned')
                elif all(map(math.isfinite, got)) and all(map(math.isfinite, want)):
                    out.close('row_equals_twin_replay', got, want, rtol=1e-3, scale=sc, atol=0.0, row=ri, mode=case['mode'],
                              comp=case['comp'], stage='own compensation')
                    for k, v in comp_vals.items():
                        if k in row:
                            out.close('compensator_value_recorded', float(row[k]), float(np.ravel(v)[0]), rtol=1e-3,
                                      atol=1e-6, row=ri)
                else:
                    out.cls('compensation_of_undefined_operands')
                # (2) the recorded operands are exactly those of the lens with the recorded perturbation values and the
                #     recorded compensator values
                for i, var in enumerate(ttol.compensator.variables):
                    key = 'C%d: %s' % (i, str(var))
                    if key in row:
                        var.update(float(row[key]))
                twin.update()
                want = [float(np.ravel(v)[0]) for v in ttol.evaluate()]
                sc = [max(abs(a), abs(b), 1e-3 * Lsc) for a, b in zip(nominal_ops, want)]
            # 1e-9 without compensators; with them the recorded compensator value goes through the variable's scaling and
            # back before it reaches the twin (observed 1.05e-9)
            out.close('row_equals_twin_replay', got, want, rtol=1e-8 if has_comp else 1e-9, scale=sc, atol=0.0, row=ri, mode=case['mode'],
                      comp=case['comp'], stage='recorded values')
            # a perturbation equal to the nominal value reproduces the nominal operands
            if not has_comp and all(abs(val - pert_names[p][2]) <= 1e-15 * max(1.0, abs(val)) for p, val in applied
                                    if p in pert_names):
                out.close('nominal_perturbation_reproduces_nominal', got, nominal_ops, rtol=1e-9,
                          scale=[max(abs(a), 1e-3 * Lsc) for a in nominal_ops], row=ri)
                out.cls('nominal_row')
            if any(not math.isfinite(g) for g in got):
                out.cls('row_with_undefined_operand')
        kinds = {p[0] for p in plan}
        out.nt(len(kinds) >= 2 and len(rows) >= 3)


CHECK = C15()
