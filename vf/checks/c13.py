"""C13 - tracing and analysis are repeatable and free of side effects (history generated as data)."""
import copy
import json
import math

import numpy as np
from hypothesis import strategies as st

from vf.harness import Check
from vf.gen import lens as GL
from vf.gen.build import build

HIST = GL.Profile(max_surfs=5, shapes=['standard', 'standard', 'even_asphere'], allow_mirror=False, keep_edges=True,
                  rho_min=3.0, steep_prob=0.0, ap_types=['EPD', 'imageFNO'], max_field_deg=8.0, allow_vignetting=True,
                  max_n=2.0, zero_thickness=False, allow_coatings=True, allow_apertures=False, unsorted_fields=True)

f = st.floats
sel = st.integers(0, 1000)

CALLS = ['trace', 'trace_object', 'trace_generic_scalar', 'trace_generic_array', 'paraxial', 'aberrations', 'wavefront', 'psf', 'mtf',
         'spot', 'rayfan', 'encircled', 'distortion', 'grid_distortion', 'field_curvature', 'rms_spot_field',
         'rms_wave_field', 'pupil_aberration', 'paraxial_trace', 'zernike_opd', 'geometric_mtf', 'opd_map', 'opd_fan']


def call_strategy():
    return st.fixed_dictionaries(dict(call=st.sampled_from(CALLS), a=sel, b=sel, h=f(0.0, 1.0),
                                      px=f(-1.0, 1.0), py=f(-1.0, 1.0)))


def flat(x):
    """Canonical list of float arrays from nested results."""
    out = []
    if isinstance(x, dict):
        for k in sorted(x):
            out += flat(x[k])
    elif isinstance(x, (list, tuple)):
        for v in x:
            out += flat(v)
    elif isinstance(x, np.ndarray):
        if x.dtype == object:
            for v in x.ravel():
                out += flat(v)
        else:
            out.append(np.array(x, dtype=complex if np.iscomplexobj(x) else float).ravel())
    elif isinstance(x, (int, float, complex, np.number)):
        out.append(np.array([x], dtype=complex if isinstance(x, complex) else float))
    elif x is None:
        out.append(np.array([np.nan]))
    return out


def same(a, b):
    if len(a) != len(b):
        return False
    for x, y in zip(a, b):
        if x.shape != y.shape or not np.array_equal(x, y, equal_nan=True):
            return False
    return True


def lens_state(o):
    """Everything the property says must not change: prescription, fields, wavelengths, aperture."""
    return json.dumps(o.to_dict(), sort_keys=True, default=lambda v: np.asarray(v).tolist())


def do_call(o, c, spec, keep_args=None, env=None):
    """Executes one call and returns its canonical result."""
    name = c['call']
    wls = o.wavelengths.get_wavelengths()
    w = wls[c['a'] % len(wls)]
    fields = o.fields.get_field_coords()
    fld = fields[c['b'] % len(fields)]
    if name == 'trace':
        dist = ['hexapolar', 'uniform', 'line_y', 'cross', 'ring'][c['a'] % 5]
        n = 3 + c['b'] % 4
        r = o.trace(0.0, float(c['h']), w, n, dist)
        sg = o.surface_group
        return flat([r.x, r.y, r.z, r.L, r.M, r.N, r.i, r.opd, sg.x, sg.y, sg.z, sg.L, sg.M, sg.N, sg.intensity, sg.opd])
    if name == 'trace_object':
        # the caller's own Distribution object, kept and reused through the history
        from optiland.distribution import create_distribution
        kind = ['hexapolar', 'uniform', 'line_y', 'cross', 'ring'][c['a'] % 5]
        n = 3 + c['b'] % 4
        env = env if env is not None else {}
        d = env.get((kind, n))
        if d is None:
            d = create_distribution(kind)
            d.generate_points(n)
            env[(kind, n)] = d
        x0, y0 = np.array(d.x, dtype=float).copy(), np.array(d.y, dtype=float).copy()
        r = o.trace(0.0, float(c['h']), w, n, d)
        if keep_args is not None:
            keep_args.append(([np.asarray(d.x, dtype=float), np.asarray(d.y, dtype=float)], [x0, y0]))
        sg = o.surface_group
        return flat([r.x, r.y, r.z, r.L, r.M, r.N, r.i, r.opd, sg.x, sg.y, sg.z])
    if name == 'trace_generic_scalar':
        r = o.trace_generic(0.0, float(c['h']), float(c['px']) * 0.7, float(c['py']) * 0.7, w)
        sg = o.surface_group
        return flat([r.x, r.y, r.z, r.L, r.M, r.N, r.i, r.opd, sg.x, sg.y, sg.z])
    if name == 'trace_generic_array':
        n = 3 + c['a'] % 5
        t = np.linspace(0, 1, n)
        Hx = np.zeros(n)
        Hy = np.full(n, float(c['h']))
        Px = 0.7 * c['px'] * np.cos(2 * np.pi * t)
        Py = 0.7 * c['py'] * np.sin(2 * np.pi * t) + 0.1
        args = [Hx.copy(), Hy.copy(), Px.copy(), Py.copy()]
        r = o.trace_generic(args[0], args[1], args[2], args[3], w)
        if keep_args is not None:
            keep_args.append((args, [Hx, Hy, Px, Py]))
        sg = o.surface_group
        return flat([r.x, r.y, r.z, r.L, r.M, r.N, r.i, r.opd, sg.x, sg.y, sg.z])
    if name == 'paraxial':
        P = o.paraxial
        return flat([P.f1(), P.f2(), P.F1(), P.F2(), P.EPL(), P.EPD(), P.XPL(), P.XPD(), P.FNO(), P.magnification(),
                     P.invariant(), list(P.marginal_ray()), list(P.chief_ray())])
    if name == 'aberrations':
        A = o.aberrations
        return flat([A.seidels(), list(A.third_order())])
    if name == 'wavefront':
        from optiland.wavefront import Wavefront
        wf = Wavefront(o, fields=[fld], wavelengths=[w], num_rays=3 + c['a'] % 3, distribution='hexapolar')
        return flat(wf.data)
    if name == 'opd_map':
        from optiland.wavefront import OPD
        q = OPD(o, fld, w, num_rings=3 + c['a'] % 3)
        return flat([q.data, q.rms()])
    if name == 'opd_fan':
        from optiland.wavefront import OPDFan
        q = OPDFan(o, fields=[fld], wavelengths=[w], num_rays=7)
        return flat(q.data)
    if name == 'zernike_opd':
        from optiland.wavefront import ZernikeOPD
        z = ZernikeOPD(o, fld, w, num_rings=4, zernike_type=['fringe', 'standard', 'noll'][c['a'] % 3], num_terms=15)
        return flat([z.data, z.zernike.coeffs])
    if name == 'psf':
        from optiland.psf import FFTPSF
        p = FFTPSF(o, fld, w, num_rays=16 + c['a'] % 9, grid_size=64 + c['b'] % 33)
        return flat([p.psf, p.strehl_ratio()])
    if name == 'mtf':
        from optiland.mtf import FFTMTF
        m = FFTMTF(o, fields=[fld], wavelength=w, num_rays=16 + c['a'] % 9, grid_size=64 + c['b'] % 33)
        return flat(m.mtf)
    if name == 'geometric_mtf':
        from optiland.mtf import GeometricMTF
        m = GeometricMTF(o, fields=[fld], wavelength=w, num_rays=12, distribution='uniform', num_points=32)
        return flat([m.mtf, m.freq])
    from optiland import analysis as AN
    if name == 'spot':
        s = AN.SpotDiagram(o, num_rings=2 + c['a'] % 2)
        return flat([s.data, s.centroid(), s.rms_spot_radius(), s.geometric_spot_radius()])
    if name == 'rayfan':
        r = AN.RayFan(o, num_points=9)
        return flat(r.data)
    if name == 'encircled':
        e = AN.EncircledEnergy(o, num_rays=3, distribution='hexapolar', num_points=16)
        return flat([e.data, e.centroid()])
    if name == 'distortion':
        d = AN.Distortion(o, num_points=8, distortion_type=['f-tan', 'f-theta'][c['a'] % 2])
        return flat(d.data)
    if name == 'grid_distortion':
        d = AN.GridDistortion(o, num_points=4, distortion_type=['f-tan', 'f-theta'][c['a'] % 2])
        return flat(d.data)
    if name == 'field_curvature':
        d = AN.FieldCurvature(o, num_points=6)
        return flat(d.data)
    if name == 'rms_spot_field':
        d = AN.RmsSpotSizeVsField(o, num_fields=4, num_rings=2)
        return flat(d._spot_size)
    if name == 'rms_wave_field':
        d = AN.RmsWavefrontErrorVsField(o, num_fields=3, num_rays=3)
        return flat(d._wavefront_error)
    if name == 'pupil_aberration':
        d = AN.PupilAberration(o, num_points=7)
        return flat(d.data)
    if name == 'paraxial_trace':
        o.paraxial.trace(float(c['h']), float(c['py']), w)
        sg = o.surface_group
        return flat([sg.y, sg.u])
    raise ValueError(name)


def call_key(c):
    return json.dumps(c, sort_keys=True)


class C13(Check):
    pid = 'C13'
    title = 'Tracing and analysis are repeatable and free of side effects'
    rule = ('cases: a generated imaging lens (with vignetting factors, simple coatings, optional polarization state) and a '
            'generated history of 4-14 calls from {trace (5 distributions, by name or as a caller-owned Distribution object kept through the history), trace_generic scalar/array, paraxial accessors, '
            'aberrations, Wavefront, ZernikeOPD, FFTPSF, FFTMTF, GeometricMTF, SpotDiagram, RayFan, EncircledEnergy, '
            'Distortion, GridDistortion, FieldCurvature, RmsSpotSizeVsField, RmsWavefrontErrorVsField, PupilAberration, OPD, OPDFan, '
            'paraxial.trace}; invariants after every call: (i) serialised lens unchanged, (ii) a repeated call returns '
            'bit-identical arrays and the same call on a never-used twin lens returns the same, (iii) caller arrays '
            'unchanged, (iv) a ray traced alone equals the same ray inside a batch. Non-trivial: >=4 calls of >=3 kinds with '
            'one repeated after a different call, on a lens with vignetting. Distinct = distinct case hashes.')
    assumptions = ['seeded/deterministic distributions only (unseeded random sampling is excepted by the property)',
                   'bit-identity is asserted within one interpreter process',
                   'batch independence tolerance: max(10 x surface tol, 1e-12 L) (exact up to 1e-12 L for closed forms)']

    def budget(self, tier):
        return (100, 8) if tier == 'quick' else (700, 16)

    def strategy(self, tier):
        return st.fixed_dictionaries(dict(spec=GL.lens_spec(HIST, min_surfs=2, force_infinite=None),
                                          polar=st.sampled_from([None, None, 'H', 'L+45']),
                                          calls=st.lists(call_strategy(), min_size=4, max_size=14),
                                          repeat=st.lists(sel, min_size=1, max_size=4)))

    def describe(self, case):
        s = case['spec']
        return dict(nsurf=len(s['surfs']), polar=case['polar'], calls=[c['call'] for c in case['calls']],
                    repeat=case['repeat'], fields=s['fields'], ap=s['ap'])

    def make(self, case):
        o = build(case['spec'])
        if case['polar']:
            from optiland.rays import create_polarization
            o.set_polarization(create_polarization(case['polar']))
        return o

    def check(self, case, out):
        spec = case['spec']
        out.cls(*GL.spec_classes(spec))
        if case['polar']:
            out.cls('polarization_state')
        o = self.make(case)
        # interleave: the generated calls, with repeats of earlier calls spliced in
        seq = list(case['calls'])
        for j, r in enumerate(case['repeat']):
            src = seq[r % len(seq)]
            pos = min(len(seq), (r % len(seq)) + 2 + j)
            seq.insert(pos, dict(src))
        state0 = lens_state(o)
        first = {}
        kinds = set()
        repeated_after_other = False
        last_key = None
        twins_done = 0
        env = {}
        Lsc = max(1.0, sum(abs(s['t']) for s in spec['surfs']))
        for step, c in enumerate(seq, start=1):
            key = call_key(c)
            keep = []
            try:
                res = do_call(o, c, spec, keep, env)
            except ValueError as e:
                if 'Chebyshev' in str(e):
                    return
                if 'Residuals are not finite' in str(e):
                    out.cls('zernike_fit_on_failed_rays')      # rays fail in this lens: the fit rejects NaN data
                    continue
                if 'is not finite' in str(e) and c['call'] == 'geometric_mtf':
                    out.cls('histogram_of_failed_rays')        # all rays fail: numpy's histogram rejects a NaN range
                    continue
                raise
            kinds.add(c['call'])
            out.cls('call_' + c['call'])
            if c['call'] in ('wavefront', 'mtf'):
                # the result for one (field, wavelength) does not depend on what else is listed in the same call
                wls_ = o.wavelengths.get_wavelengths()
                flds_ = o.fields.get_field_coords()
                w_ = wls_[c['a'] % len(wls_)]
                fld_ = flds_[c['b'] % len(flds_)]
                if c['call'] == 'wavefront' and len(wls_) >= 2:
                    from optiland.wavefront import Wavefront
                    other = [x for x in wls_ if x != w_][c['b'] % (len(wls_) - 1)]
                    wf2 = Wavefront(o, fields=[fld_], wavelengths=[other, w_], num_rays=3 + c['a'] % 3, distribution='hexapolar')
                    out.expect('item_independent_of_the_list', same(flat(wf2.data[0][1]), res), step=step, call=c['call'],
                               listed=[float(other), float(w_)])
                    out.cls('wavefront_with_a_leading_other_wavelength')
            # (i) no side effect on the lens
            st_now = lens_state(o)
            if not out.expect('lens_unchanged', st_now == state0, step=step, call=c['call']):
                return
            # (iii) caller arrays
            for passed, orig in keep:
                for a, b in zip(passed, orig):
                    out.expect('caller_arrays_unmodified', np.array_equal(a, b), step=step, call=c['call'])
            # (ii) repeatability
            if key in first:
                out.expect('repeat_bit_identical', same(res, first[key][0]), step=step, call=c['call'],
                           first_step=first[key][1])
                if last_key != key:
                    repeated_after_other = True
            else:
                first[key] = (res, step)
                if twins_done < 6:
                    twins_done += 1
                    twin = self.make(case)
                    try:
                        res_t = do_call(twin, c, spec)
                    except ValueError:
                        continue
                    out.expect('history_independent', same(res, res_t), step=step, call=c['call'],
                               n_before=step - 1)
            last_key = key
        # (iv) batch independence
        wls = o.wavelengths.get_wavelengths()
        w = wls[0]
        Px = np.array([0.0, 0.6, -0.3, 0.2, 0.7])
        Py = np.array([0.0, 0.1, 0.65, -0.7, 0.7])
        Hy = np.full(5, 0.7)
        o.trace_generic(np.zeros(5), Hy.copy(), Px.copy(), Py.copy(), w)
        sg = o.surface_group
        batch = [np.array(getattr(sg, k), dtype=float) for k in ('x', 'y', 'z', 'L', 'M', 'N', 'opd', 'intensity')]
        tol_surf = 1e-6 if any(s['type'] != 'standard' for s in spec['surfs']) else 0.0
        # "beyond the surface-intersection tolerance": an iterated surface is met to 1e-6 (absolute, batch dependent);
        # behind it the point error d becomes a slope error ~ |c| d that grows with the distance travelled
        S_ = spec['surfs']
        cmax = max([abs(1.0 / GL.fl(q['R'])) for q in S_ if q['R'] != GL.INF] + [0.0])
        first_it = next((i for i, q in enumerate(S_) if q['type'] != 'standard'), None)
        row_tol = np.full(len(S_) + 2, 1e-12 * Lsc)
        if first_it is not None:
            dist = 0.0
            for r_ in range(first_it + 1, len(S_) + 2):
                row_tol[r_] = max(row_tol[r_], 10 * tol_surf * (1 + 3 * cmax * dist))
                if r_ - 1 < len(S_):
                    dist += abs(float(S_[r_ - 1]['t']))
        for j in (1, 3):
            o.trace_generic(0.0, 0.7, float(Px[j]), float(Py[j]), w)
            single = [np.array(getattr(sg, k), dtype=float) for k in ('x', 'y', 'z', 'L', 'M', 'N', 'opd', 'intensity')]
            for k, (b_, s_) in enumerate(zip(batch, single)):
                with np.errstate(all='ignore'):
                    bad = np.abs(b_[:, j] - s_[:, 0]) > row_tol + 1e-12 * np.abs(s_[:, 0])
                    bad |= np.isfinite(b_[:, j]) != np.isfinite(s_[:, 0])
                out.expect('batch_independent', not np.any(bad), ray=j, quantity=k,
                           rows=np.where(bad)[0][:4], got=b_[:, j][bad][:3], want=s_[:, 0][bad][:3], tol=row_tol[bad][:3])
        has_vig = any(fd['vx'] or fd['vy'] for fd in spec['fields'])
        out.nt(len(seq) >= 4 and len(kinds) >= 3 and repeated_after_other and has_vig)


CHECK = C13()
