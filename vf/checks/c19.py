"""C19 - saving and reloading a lens preserves its behaviour."""
import copy
import json
import math
import os

import numpy as np
from hypothesis import strategies as st

from vf.harness import Check, HERE
from vf.gen import lens as GL
from vf.gen.build import build
from vf.checks.c02 import ray_bundle

FULL = GL.Profile(max_surfs=8, shapes=['standard', 'standard', 'even_asphere', 'polynomial', 'chebyshev'],
                  allow_tilt=True, allow_absorb=True, allow_apertures=True, allow_coatings=True, allow_vignetting=True,
                  keep_edges=True, sym_coef_from=0, rho_min=1.5, steep_prob=0.1, max_field_deg=10.0,
                  ap_types=['EPD', 'EPD', 'imageFNO', 'objectNA'])

f = st.floats
sel = st.integers(0, 1000)


def extras():
    return st.fixed_dictionaries(dict(
        fresnel=st.lists(sel, max_size=2),
        bsdf=st.one_of(st.none(), st.tuples(sel, st.sampled_from(['lambertian', 0.01, 0.05]))),
        abbe=st.one_of(st.none(), st.tuples(sel, f(1.45, 1.85), f(25.0, 65.0))),
        polar=st.sampled_from([None, None, 'H', 'V', 'L+45', 'RCP', 'unpolarized']),
        wl_unit=st.sampled_from(['um', 'um', 'nm']),
        pickups=st.lists(st.tuples(st.sampled_from(['radius', 'conic', 'thickness']), sel, sel,
                                   st.sampled_from([1.0, -1.0, 0.5]), st.sampled_from([0.0, 1.0])), max_size=2),
        solve=st.one_of(st.none(), st.tuples(sel, f(-2.0, 2.0))),
        edits=st.lists(st.one_of(st.tuples(st.just('set_thickness'), sel, f(0.5, 30.0)),
                                 st.tuples(st.just('set_radius'), sel, f(20.0, 200.0)),
                                 st.tuples(st.just('scale_system'), sel, f(0.2, 5.0)),
                                 st.tuples(st.just('image_solve'), sel, f(0.0, 1.0)),
                                 st.tuples(st.just('update'), sel, f(0.0, 1.0)),
                                 st.tuples(st.just('set_conic'), sel, f(-2.0, 1.0)),
                                 st.tuples(st.just('set_index'), sel, f(1.3, 1.9)),
                                 st.tuples(st.just('variable_thickness'), sel, f(0.5, 30.0))), max_size=5),
        tele=st.booleans(),
        # whole-number prescription values passed as Python ints; a second batch of edits applied after the round trip to
        # the original and to the reloaded lens alike
        ints=st.booleans(),
        edits2=st.lists(st.one_of(st.tuples(st.just('set_thickness'), sel, f(0.5, 30.0)),
                                  st.tuples(st.just('set_radius'), sel, f(20.0, 200.0)),
                                  st.tuples(st.just('set_index'), sel, f(1.3, 1.9)),
                                  st.tuples(st.just('update'), sel, f(0.0, 1.0)),
                                  st.tuples(st.just('set_conic'), sel, f(-2.0, 1.0))), max_size=3)))


def deep_equal(a, b, path=''):
    """Exact structural equality; returns the first differing path or None."""
    if isinstance(a, dict) and isinstance(b, dict):
        if set(a) != set(b):
            return path + ' keys %s != %s' % (sorted(a), sorted(b))
        for k in a:
            r = deep_equal(a[k], b[k], path + '/' + str(k))
            if r:
                return r
        return None
    if isinstance(a, (list, tuple)) and isinstance(b, (list, tuple)):
        if len(a) != len(b):
            return path + ' len %d != %d' % (len(a), len(b))
        for i, (x, y) in enumerate(zip(a, b)):
            r = deep_equal(x, y, path + '/%d' % i)
            if r:
                return r
        return None
    if isinstance(a, float) and isinstance(b, float) and math.isnan(a) and math.isnan(b):
        return None
    if isinstance(a, (int, float)) and isinstance(b, (int, float)) and not isinstance(a, bool) and not isinstance(b, bool):
        return None if float(a) == float(b) else path + ' %r != %r' % (a, b)
    return None if a == b and type(a) == type(b) else path + ' %r != %r' % (a, b)


class C19(Check):
    pid = 'C19'
    title = 'Saving and reloading a lens preserves its behaviour'
    rule = ('cases: generated full-feature lenses (all six shapes; ideal/absorbing/catalogue/model-glass/mirror media; '
            'Simple and Fresnel coatings; Lambertian/Gaussian scatter; apertures; vignetted fields; wavelength units; '
            'polarization ignore/state; pickups; solve; telecentric flag) optionally followed by an edit history '
            '(set_thickness, set_radius, set_conic, scale_system, image_solve, update, thickness variable). Oracle: round '
            'trip - to_dict -> json.dumps -> json.loads -> from_dict (and save/load through a file): dictionaries equal, '
            'records of a generated ray bundle bit-identical, paraxial accessors identical. Non-trivial: >=3 feature kinds '
            'beyond plain spheres, or an edit history containing a thickness edit/solve/scale. '
            'Distinct = distinct case hashes.')
    assumptions = ['lenses with scatter models take only the dictionary clauses (scatter is unseeded random)',
                   'JSON is Python\'s json module (Infinity/NaN tokens allowed, as the library itself writes them)']

    def budget(self, tier):
        return (160, 8) if tier == 'quick' else (2000, 16)

    def strategy(self, tier):
        return st.fixed_dictionaries(dict(spec=GL.lens_spec(FULL), ex=extras(), rays=ray_bundle(), wl=st.integers(0, 3)))

    def describe(self, case):
        s = case['spec']
        return dict(ex=case['ex'], nsurf=len(s['surfs']), types=[q['type'] for q in s['surfs']],
                    mats=[q['mat']['kind'] for q in s['surfs']], obj=s['obj'], ap=s['ap'])

    # ------------------------------------------------------------------
    def make(self, case, out):
        spec = copy.deepcopy(case['spec'])
        ex = case['ex']
        K = len(spec['surfs'])
        feats = set()
        finite = spec['obj']['t'] != GL.INF
        if ex['abbe']:
            cand = [i for i, s in enumerate(spec['surfs']) if s['mat']['kind'] in ('ideal', 'glass')]
            if cand:
                i = cand[ex['abbe'][0] % len(cand)]
                spec['surfs'][i]['mat'] = dict(kind='abbe', n=ex['abbe'][1], v=ex['abbe'][2])
                feats.add('model_glass')
        polar = ex['polar']
        for sidx in ex['fresnel']:
            cand = [i for i, s in enumerate(spec['surfs']) if s['mat']['kind'] != 'mirror' and not s['coat']]
            if cand and polar:
                spec['surfs'][cand[sidx % len(cand)]]['coat'] = 'fresnel'
                feats.add('fresnel_coating')
        if ex['bsdf']:
            i = ex['bsdf'][0] % K
            spec['surfs'][i]['bsdf'] = ex['bsdf'][1]
            feats.add('scatter')
        if ex['tele'] and finite and spec['ap']['type'] == 'objectNA' and spec['ftype'] == 'object_height' \
                and spec['obj'].get('n', 1.0) == 1.0:
            spec['tele'] = True
            feats.add('telecentric')
        if ex.get('ints'):
            # conics become whole numbers so that there is something to pass as an int
            for q in spec['surfs']:
                if q['R'] != GL.INF and q['type'] == 'standard':
                    q['k'] = float(int(round(q['k'])))
            feats.add('int_typed_values')
        for q in spec['surfs']:
            if q['type'] == 'chebyshev' and q.get('norm'):
                q['norm_y'] = round(q['norm'] * 1.3, 6)          # different normalisation lengths in x and y
        o = build(spec, with_settings=False, ints=bool(ex.get('ints')))
        # settings, with wavelength units
        o.set_aperture(spec['ap']['type'], spec['ap']['value'])
        o.set_field_type(spec['ftype'])
        for fd in spec['fields']:
            o.add_field(y=fd['y'], vx=fd['vx'], vy=fd['vy'])
        for i, w in enumerate(spec['wls']):
            if ex['wl_unit'] == 'nm':
                o.add_wavelength(value=w * 1000.0, is_primary=(i == spec['prim']), unit='nm')
            else:
                o.add_wavelength(value=w, is_primary=(i == spec['prim']))
        if ex['wl_unit'] == 'nm':
            feats.add('wavelength_units')
        if spec.get('tele'):
            o.obj_space_telecentric = True
        if polar:
            from optiland.rays import create_polarization
            o.set_polarization(create_polarization(polar))
            feats.add('polarization_state')
        # pickups / solve
        used_t = set()
        for (attr, a, b, scale, offset) in ex['pickups']:
            if K < 2:
                break
            src = 1 + a % K
            tgt = 1 + b % K
            if src == tgt:
                continue
            sg = o.surface_group
            if attr == 'radius' and not math.isfinite(float(sg.radii[src])):
                continue
            if attr == 'conic' and 'Plane' in (type(sg.surfaces[tgt].geometry).__name__,
                                               type(sg.surfaces[src].geometry).__name__):
                continue
            if attr == 'radius' and scale * float(sg.radii[src]) + offset == 0:
                continue
            if scale == 1.0 and offset == 0.0:
                o.pickups.add(src, attr, tgt)                  # the defaults (scale 1, offset 0)
            else:
                o.pickups.add(src, attr, tgt, scale=scale, offset=offset)
            feats.add('pickup')
        if ex['solve'] and spec['ap']['type'] == 'EPD' and K >= 2:
            k = 2 + ex['solve'][0] % K
            ya, ua = o.paraxial.marginal_ray()
            if abs(float(np.ravel(ua)[k - 1])) > 1e-3:
                o.solves.add('marginal_ray_height', k, ex['solve'][1])
                feats.add('solve')
        edited = self.apply_edits(o, ex['edits'], K, out)
        for (name, a, v) in []:
            if name == 'set_thickness':
                k = 1 + a % K
                sign = -1.0 if float(np.ravel(o.surface_group.get_thickness(k))[0]) < 0 else 1.0
                o.set_thickness(sign * v, k)
                edited = True
            elif name == 'set_radius':
                o.set_radius(v, 1 + a % K)
            elif name == 'set_conic':
                k = 1 + a % K
                if type(o.surface_group.surfaces[k].geometry).__name__ != 'Plane':
                    o.set_conic(v, k)
            elif name == 'scale_system':
                o.scale_system(v)
                edited = True
            elif name == 'set_index':
                # the medium behind any surface, the object surface (object-space medium) included
                o.set_index(round(v, 6), a % (K + 1))
                edited = True
            elif name == 'image_solve':
                ya, ua = o.paraxial.marginal_ray()
                if abs(float(np.ravel(ua)[-2])) > 1e-3:
                    o.image_solve()
                    edited = True
            elif name == 'update':
                o.update()
            elif name == 'variable_thickness':
                from optiland.optimization.variable.variable import Variable
                k = 1 + a % K
                sign = -1.0 if float(np.ravel(o.surface_group.get_thickness(k))[0]) < 0 else 1.0
                Variable(o, 'thickness', surface_number=k, apply_scaling=False).update(sign * v)
                edited = True
            out.cls('edit_' + name)
        for s in spec['surfs']:
            if s['type'] != 'standard':
                feats.add(s['type'])
            if s['ap']:
                feats.add('aperture')
            if s['coat'] and s['coat'] != 'fresnel':
                feats.add('simple_coating')
            if s['mat']['kind'] == 'glass':
                feats.add('catalogue_glass')
            if s['mat']['kind'] == 'mirror':
                feats.add('mirror')
            if s['rx'] or s['dx'] or s['ry'] or s['dy']:
                feats.add('tilt_decentre')
        if any(fd['vx'] or fd['vy'] for fd in spec['fields']):
            feats.add('vignetting')
        return o, spec, feats, edited

    @staticmethod
    def apply_edits(o, edits, K, out=None):
        edited = False
        for (name, a, v) in edits:
            if name == 'set_thickness':
                k = 1 + a % K
                sign = -1.0 if float(np.ravel(o.surface_group.get_thickness(k))[0]) < 0 else 1.0
                o.set_thickness(sign * v, k)
                edited = True
            elif name == 'set_radius':
                o.set_radius(v, 1 + a % K)
            elif name == 'set_conic':
                k = 1 + a % K
                if type(o.surface_group.surfaces[k].geometry).__name__ != 'Plane':
                    o.set_conic(v, k)
            elif name == 'scale_system':
                o.scale_system(v)
                edited = True
            elif name == 'set_index':
                # the medium behind any surface, the object surface (object-space medium) included
                o.set_index(round(v, 6), a % (K + 1))
                edited = True
            elif name == 'image_solve':
                ya, ua = o.paraxial.marginal_ray()
                if abs(float(np.ravel(ua)[-2])) > 1e-3:
                    o.image_solve()
                    edited = True
            elif name == 'update':
                o.update()
            elif name == 'variable_thickness':
                from optiland.optimization.variable.variable import Variable
                k = 1 + a % K
                sign = -1.0 if float(np.ravel(o.surface_group.get_thickness(k))[0]) < 0 else 1.0
                Variable(o, 'thickness', surface_number=k, apply_scaling=False).update(sign * v)
                edited = True
            if out is not None:
                out.cls('edit_' + name)
        return edited

    def check(self, case, out):
        o, spec, feats, edited = self.make(case, out)
        out.cls(*['feat_' + x for x in feats])
        out.cls('edited' if edited else 'as_built')
        # 1. dictionary form is JSON serialisable
        d = o.to_dict()
        try:
            # a JSON object is an unordered set of members: one text in two is written with its keys sorted
            sort_keys = len(spec['surfs']) % 2 == 1
            text = json.dumps(d, sort_keys=sort_keys)
            if sort_keys:
                out.cls('json_text_with_sorted_keys')
        except TypeError as e:
            out.fail('json_serialisable', error=str(e)[:200], edited=edited, feats=sorted(feats))
            return
        out.ok('json_serialisable')
        from optiland.optic import Optic
        d_json = json.loads(text)
        o2 = Optic.from_dict(d_json)
        d2 = o2.to_dict()
        try:
            text2 = json.dumps(d2)
            diff = deep_equal(json.loads(text2), d_json)
        except TypeError as e:
            diff = 'reloaded lens not serialisable: %s' % e
        out.expect('reloaded_dict_equals_source', diff is None, diff=diff)
        # 2. through a file
        path = os.path.join(HERE, '.cache', 'c19_%d.json' % os.getpid())
        from optiland.fileio import save_optiland_file, load_optiland_file
        save_optiland_file(o, path)
        o3 = load_optiland_file(path)
        try:
            os.remove(path)
        except OSError:
            pass
        diff3 = deep_equal(json.loads(json.dumps(o3.to_dict())), d_json)
        out.expect('file_round_trip_dict', diff3 is None, diff=diff3)
        # 3. behaviour
        w = spec['wls'][case['wl'] % len(spec['wls'])]
        rays = case['rays']
        Hy = np.array([r[0] for r in rays], dtype=float)
        Px = np.array([r[1] for r in rays], dtype=float)
        Py = np.array([r[2] for r in rays], dtype=float)
        if 'scatter' not in feats:
            recs = []
            for lens in (o, o2, o3):
                try:
                    lens.trace_generic(np.zeros_like(Hy), Hy.copy(), Px.copy(), Py.copy(), w)
                except ValueError as e:
                    if 'Chebyshev' in str(e):
                        out.cls('cheb_domain_error')
                        recs = None
                        break
                    raise
                sg = lens.surface_group
                recs.append({k: np.array(getattr(sg, k), dtype=float) for k in
                             ('x', 'y', 'z', 'L', 'M', 'N', 'opd', 'intensity')})
            if recs:
                for nm, r in (('dict', recs[1]), ('file', recs[2])):
                    for k in recs[0]:
                        same = recs[0][k].shape == r[k].shape and np.array_equal(recs[0][k], r[k], equal_nan=True)
                        out.expect('traces_identically', same, via=nm, quantity=k,
                                   max_abs=float(np.nanmax(np.abs(recs[0][k] - r[k]))) if recs[0][k].shape == r[k].shape
                                   and recs[0][k].size else None)
        # Optic.trace() as well: it is the entry point that evaluates the polarized intensity (coatings, input state)
        if 'scatter' not in feats:
            flds = o.fields.get_field_coords()
            hx_, hy_ = flds[len(flds) - 1]
            ints = []
            for lens in (o, o2, o3):
                try:
                    r = lens.trace(hx_, hy_, w, 2, 'hexapolar')
                    ints.append(np.array(r.i, dtype=float))
                except ValueError as e:
                    if 'Chebyshev' in str(e) or 'parallel to x-axis' in str(e):
                        ints = None
                        break
                    raise
            if ints:
                for nm, ii in (('dict', ints[1]), ('file', ints[2])):
                    out.expect('traces_identically', ints[0].shape == ii.shape and np.array_equal(ints[0], ii, equal_nan=True),
                               via=nm, quantity='intensity of Optic.trace',
                               max_abs=float(np.nanmax(np.abs(ints[0] - ii))) if ints[0].shape == ii.shape and ii.size else None)
        # paraxial accessors
        P, P2 = o.paraxial, o2.paraxial
        for nm in ('f1', 'f2', 'F1', 'F2', 'EPL', 'EPD', 'XPL', 'XPD', 'FNO', 'magnification'):
            a = float(np.ravel(getattr(P, nm)())[0])
            b = float(np.ravel(getattr(P2, nm)())[0])
            out.expect('paraxial_identical', a == b or (math.isnan(a) and math.isnan(b)), which=nm, a=a, b=b)
        # the reloaded lens keeps working like the original: the same further edits (and update()) on both, then the same
        # prescription again
        ex2 = case['ex'].get('edits2') or []
        if ex2:
            K = len(spec['surfs'])
            for lens in (o, o2):
                self.apply_edits(lens, list(ex2) + [('update', 0, 0.0)], K)
            try:
                da = json.loads(json.dumps(o.to_dict()))
                db = json.loads(json.dumps(o2.to_dict()))
                diff4 = deep_equal(db, da)
            except TypeError as e:
                diff4 = 'not serialisable after further edits: %s' % e
            out.expect('edits_after_reload_act_as_on_the_original', diff4 is None, diff=diff4, edits=[e_[0] for e_ in ex2])
            out.cls('edited_after_reload')
        out.nt(len(feats) >= 3 or edited)


CHECK = C19()
