"""C05 - real rays converge to the paraxial prediction as aperture and field vanish."""
import math

import numpy as np
from hypothesis import strategies as st

from vf.harness import Check
from vf.gen import lens as GL
from vf.gen.build import build
from vf.gen.edit import edit_strategy, apply_edit, maybe_reload

EPS = [10 ** (-1 - 0.5 * i) for i in range(7)]     # 1e-1 ... 1e-4


class C05(Check):
    pid = 'C05'
    title = 'Real rays converge to the paraxial prediction as aperture and field vanish'
    rule = ('cases: generated centred lenses (spheres, conics, even aspheres without r^2 term, planes, mirrors; finite '
            'and infinite object; all aperture/field kinds) x the geometric sequence eps = 1e-1 ... 1e-4 (7 points), for '
            'marginal-type rays (Hy=0, Py=eps) and chief-type rays (Hy=eps, P=0), at every surface; optionally one edit '
            '(index / radius / thickness / conic / stop) of the same Optic, then the whole sequence again. Oracle: ABCD reference '
            'marginal/chief rays; delta(eps) = real/s(eps) - reference must satisfy |delta| <= 4 K eps^2 + floor with K '
            'from the two largest eps. Non-trivial: >=2 powered surfaces and |delta| at eps=0.1 above 1e-8 (there is '
            'aberration to converge away from). Distinct = distinct spec hashes.')
    assumptions = ['tilted / decentred / odd-term freeform systems are excluded: the paraxial model ignores them by '
                   'construction, so no limit relation is claimed',
                   'scale factor s(eps): eps for pupil and object heights, tan(eps*theta)/tan(theta) for field angles',
                   'round-off floor (1e-12*scale + 1e-9*[iterative surface])/eps']

    def budget(self, tier):
        return (150, 8) if tier == 'quick' else (1500, 16)

    def strategy(self, tier):
        return st.fixed_dictionaries(dict(spec=GL.lens_spec('centred'), edit=edit_strategy()))

    def describe(self, case):
        s = case['spec']
        return dict(obj=s['obj'], ap=s['ap'], ftype=s['ftype'], maxfield=GL.max_field(s),
                    surfs=[dict(type=q['type'], R=q['R'], k=q['k'], t=q['t'], mat=q['mat'], stop=q['stop'])
                           for q in s['surfs']])

    def check(self, case, out):
        import copy
        spec = copy.deepcopy(case['spec'])
        # vignetting factors on the off-axis fields only (the usual set-up): the field point(s) nearest the axis carry
        # none, so the axial bundle is the full pupil and "pupil coordinate eps" means the height eps x EPD/2.  (How a
        # factor on the axial field rescales the bundle is not fixed by any listed property.)
        if spec['fields']:
            m0 = min(abs(fd['y']) for fd in spec['fields'])
            for fd in spec['fields']:
                if abs(fd['y']) == m0:
                    fd['vx'] = fd['vy'] = 0.0
        out.cls(*GL.spec_classes(spec))
        o = build(spec)
        self.core(out, o, spec)
        ed = case.get('edit')
        if ed:
            # history on one Optic: trace, edit through the public setters, trace again against the edited reference
            o = maybe_reload(o, ed)
            spec2 = apply_edit(o, spec, ed)
            if spec2 is not None:
                out.cls('retraced_after_' + ed['kind'] + '_edit')
                self.core(out, o, spec2)

    def core(self, out, o, spec):
        ps = GL.parax_sys(spec)
        w = spec['wls'][spec['prim']]
        at, av = spec['ap']['type'], spec['ap']['value']
        K1 = ps.K1
        iterative = any(s['type'] != 'standard' for s in spec['surfs'])
        mf = GL.max_field(spec)
        rya, rua = [np.array(v, dtype=float) for v in ps.marginal(at, av)]
        if not (np.all(np.isfinite(rya)) and np.all(np.isfinite(rua))):
            out.cls('reference_not_finite')
            return
        Lsc = max(1.0, sum(abs(s['t']) for s in spec['surfs']))
        powered = sum(1 for j, c in enumerate(ps.c) if c != 0 and (ps.mirror[j] or ps.n_abs[j] != ps.n_abs[j + 1]))
        nt = False
        near_parabola = any(s['type'] == 'standard' and s['R'] != GL.INF and abs(1 + s['k']) < 0.05
                            for s in spec['surfs'])
        Rmax = max([abs(GL.fl(s['R'])) for s in spec['surfs'] if s['R'] != GL.INF] + [1.0])
        Rmin = min([abs(GL.fl(s['R'])) for s in spec['surfs'] if s['R'] != GL.INF] + [Lsc])
        if near_parabola:
            out.cls('near_parabolic_surface')
        epl = float(ps.EPL())
        Fs = max(Lsc, abs(epl) if math.isfinite(epl) else 0.0, float(ps.EPD(at, av)),
                 float(ps.t_obj) if math.isfinite(ps.t_obj) else 0.0)

        # first-order levers from each near-parabolic surface k to every surface j >= k: |y_j|, |u_j| caused by a unit
        # height error and by a unit slope error introduced at k
        levers = {}
        if near_parabola:
            for k_, q in enumerate(spec['surfs']):
                if q['type'] == 'standard' and q['R'] != GL.INF and abs(1 + q['k']) < 0.05:
                    Y1, U1, Y2, U2 = np.zeros(K1), np.zeros(K1), np.zeros(K1), np.zeros(K1)
                    Y1[k_], U2[k_] = 1.0, 1.0
                    if k_ + 2 <= K1:
                        tk = float(ps.t[k_])
                        for (y0, u0, Ya, Ua) in ((1.0, 0.0, Y1, U1), (0.0, 1.0, Y2, U2)):
                            ys, us = ps.trace(y0 + tk * u0, u0, first=k_ + 2)
                            Ya[k_ + 1:] = np.abs(np.array(ys, dtype=float))
                            Ua[k_ + 1:] = np.abs(np.array(us, dtype=float))
                    for a_ in (Y1, U1, Y2, U2):
                        a_[~np.isfinite(a_)] = 0.0
                    levers[k_] = (Y1, U1, Y2, U2)

        def run(kind, ref_y, ref_u, scale_fn, trace_args):
            nonlocal nt
            dy, du, valid, cancel = [], [], [], []
            for e in EPS:
                Hy, Py = trace_args(e)
                o.trace_generic(0.0, Hy, 0.0, Py, w)
                sg = o.surface_group
                y = np.array([np.ravel(s.y)[0] for s in sg.surfaces[1:]], dtype=float)
                M = np.array([np.ravel(s.M)[0] for s in sg.surfaces[1:]], dtype=float)
                N = np.array([np.ravel(s.N)[0] for s in sg.surfaces[1:]], dtype=float)
                s_ = scale_fn(e)
                # size of the conic-root cancellation (finding C05-parabola-cancellation) for this ray: the root
                # (-b - sqrt(b^2-4ac))/(2a) with a = c (L^2+M^2+(1+k)N^2) loses ~ 1e-15/|a| in the distance along the ray
                # The displaced point (dy = |slope| terr, du = 2|c| dy) is carried to the later surfaces with the
                # reference's own first-order propagation (levers[k] = |y|, |u| there per unit dy and unit du).
                terr = np.zeros((2, len(y)))
                if near_parabola:
                    for k_, q in enumerate(spec['surfs']):
                        if q['type'] == 'standard' and q['R'] != GL.INF and abs(1 + q['k']) < 0.05:
                            Lp, Mp, Np = [float(np.ravel(getattr(sg.surfaces[k_], nm))[0]) for nm in ('L', 'M', 'N')]
                            a_dir = abs(Lp ** 2 + Mp ** 2 + (1 + q['k']) * Np ** 2) / abs(GL.fl(q['R']))
                            if a_dir > 0 and math.isfinite(a_dir):
                                t_ = 1e-15 / a_dir
                                ck = 2 * abs(1.0 / GL.fl(q['R']))
                                Y1, U1, Y2, U2 = levers[k_]
                                terr[0] += t_ * (Y1 + ck * Y2)
                                terr[1] += t_ * (U1 + ck * U2)
                cancel.append(terr)
                with np.errstate(all='ignore'):
                    dy.append(y / s_ - ref_y)
                    du.append(M / N / s_ - ref_u)
                valid.append(bool(np.all(np.isfinite(y)) and np.all(np.isfinite(M / N))))
            dy, du = np.array(dy), np.array(du)
            if not (valid[0] and valid[1]):
                out.cls(kind + '_ray_fails_at_large_eps')
                # use the first two valid ones
            idx = [i for i, v in enumerate(valid) if v]
            if len(idx) < 4:
                out.cls(kind + '_too_few_valid')
                return
            i0, i1 = idx[0], idx[1]
            ysc = max(np.max(np.abs(ref_y)), 1e-3 * Lsc)
            usc = max(np.max(np.abs(ref_u)), ysc / Lsc)
            for name, d, sc in (('y', dy, ysc), ('u', du, usc)):
                Kc = np.maximum(np.abs(d[i0]) / EPS[i0] ** 2, np.abs(d[i1]) / EPS[i1] ** 2)
                for i in idx[2:]:
                    fs = Fs if name == 'y' else max(usc, Fs / Lsc, 1.0)
                    floor = (1e-13 * fs + (1e-9 * sc if iterative else 0.0)) / EPS[i] + 1e-13 * fs
                    if near_parabola and out.kf_open('C05-parabola-cancellation'):
                        # weakened relation inside the finding's region: allow the cancellation noise of the
                        # conic intersection (grows like 1/eps^2 as rays become axial)
                        out.region('C05-parabola-cancellation')
                        floor = floor + 1e-12 * max(Fs, Rmax) / EPS[i] ** 2
                        # a point displaced by terr along the ray: heights move by |slope| terr, slopes by |c| |slope| terr
                        floor = floor + 10 * usc * cancel[i][0 if name == 'y' else 1]
                    bound = 4 * Kc * EPS[i] ** 2 + floor
                    bad = np.abs(d[i]) > bound
                    out.expect('%s_%s_quadratic' % (kind, name), not np.any(bad), eps=EPS[i],
                               surface=(np.where(bad)[0][:3] + 1), delta=d[i][bad][:3], bound=bound[bad][:3],
                               delta_at_largest=d[i0][bad][:3])
                if np.max(np.abs(d[i0])) > 1e-8 * sc:
                    nt = True
            return dy, du

        if any(fd.get('vy') or fd.get('vx') for fd in spec['fields']):
            out.cls('off_axis_fields_with_vignetting_factors')
        # marginal-type
        r = run('marginal', rya, rua, lambda e: e, lambda e: (0.0, e))
        if r is not None and math.isinf(ps.t_obj) and abs(rua[-1]) > 1e-9:
            pass
        # chief-type
        if mf > 1e-6:
            ryb, rub = [np.array(v, dtype=float) for v in ps.chief(spec['ftype'], mf)]
            if np.all(np.isfinite(ryb)) and np.all(np.isfinite(rub)):
                if spec['ftype'] == 'angle':
                    tmax = math.tan(math.radians(mf))
                    sf = lambda e: math.tan(math.radians(e * mf)) / tmax  # noqa
                else:
                    sf = lambda e: e  # noqa
                run('chief', ryb, rub, sf, lambda e: (e, 0.0))
        out.nt(nt and powered >= 2)


CHECK = C05()
