"""C02 - every traced ray obeys Snell / reflection on the prescribed surface."""
import math

import numpy as np
from hypothesis import strategies as st

from vf.harness import Check
from vf.gen.util import weighted
from vf.gen import lens as GL
from vf.gen.build import build
from vf.gen.edit import edit_strategy, apply_edit, maybe_reload, ALL_KINDS
from vf.gen import samples as GS
from vf.ref import trace as RT


def ray_bundle():
    f = st.floats
    pt = st.tuples(f(-1, 1), f(0, 1), f(0, 2 * math.pi)).map(
        lambda t: (round(t[0], 4), round(math.sqrt(t[1]) * math.cos(t[2]), 4), round(math.sqrt(t[1]) * math.sin(t[2]), 4)))
    rim = st.tuples(f(-1, 1), f(0, 2 * math.pi)).map(
        lambda t: (round(t[0], 4), math.cos(t[1]), math.sin(t[1])))
    return st.lists(weighted((2, pt), (1, rim)), min_size=4, max_size=24)


def spec_from_optic(o):
    """A LensSpec-like description read back from a built sample lens (standard surfaces only)."""
    sg = o.surface_group
    surfs = []
    S = sg.surfaces
    z = [float(np.ravel(s.geometry.cs.z)[0]) for s in S]
    for i in range(1, len(S) - 1):
        s = S[i]
        g = s.geometry
        typ = {'Plane': 'standard', 'StandardGeometry': 'standard', 'EvenAsphere': 'even_asphere'}[type(g).__name__]
        R = float(g.radius)
        surfs.append(dict(type=typ, R='inf' if math.isinf(R) else R, k=float(getattr(g, 'k', 0.0)),
                          coef=list(getattr(g, 'c', [])) if typ == 'even_asphere' else None, norm=None,
                          t=z[i + 1] - z[i], mat=dict(kind='lib', obj=i), dx=float(g.cs.x), dy=float(g.cs.y),
                          rx=float(g.cs.rx), ry=float(g.cs.ry), ap=None, coat=None, stop=bool(s.is_stop),
                          tol=getattr(g, 'tol', None), reflective=bool(s.is_reflective)))
    return surfs, z


class C02(Check):
    pid = 'C02'
    title = 'Every traced ray obeys Snell/reflection law on the prescribed surface'
    rule = ('cases: generated lenses (profile "real": 1-10 surfaces, plane/sphere/conic/even asphere/xy polynomial/'
            'Chebyshev, mirrors, decentre+tilt, ideal/absorbing/catalogue media) x generated ray bundles (Hy in [-1,1], '
            'pupil points in the disk and on the rim, skew) at a lens wavelength, traced with trace_generic; plus the 24 '
            'samples x hexapolar+rim bundle x all fields/wavelengths. Oracle: per-surface law checker with own frame '
            'transform, own sag/gradient, own dispersion evaluation, own conic intersection for the existence of the '
            'intersection. Non-trivial: >=2 powered surfaces hit by a skew ray at incidence > 5 deg. '
            'Distinct = distinct (spec, bundle) hashes.')
    assumptions = ['on-surface residual bound: 1e-9 x max(|p_local|,|R|) for closed-form shapes, 10 x tol of the surface '
                   'for iterative shapes (the batch stopping rule is C13\'s business)',
                   'non-finite discipline is asserted for closed-form shapes only and only with a clear margin '
                   '(|t|>1e-7 L, discriminant and TIR margins 1e-9)',
                   'Chebyshev surfaces raise ValueError outside their normalisation square (documented): such cases are '
                   'counted, not failed',
                   'samples: media indices are read from the library objects (C18 covers them)']

    def budget(self, tier):
        return (300, 8) if tier == 'quick' else (3000, 16)

    def strategy(self, tier):
        return st.fixed_dictionaries(dict(kind=st.just('spec'), spec=GL.lens_spec('real'), rays=ray_bundle(),
                                          wl=st.integers(0, 3), edit=edit_strategy(ALL_KINDS, p_none=2)))

    def fixed_cases(self, tier):
        return [dict(kind='sample', name=n) for n in GS.sample_names()]

    def describe(self, case):
        if case['kind'] == 'sample':
            return case
        s = case['spec']
        return dict(kind='spec', rays=case['rays'][:4], n_rays=len(case['rays']), obj=s['obj'], ap=s['ap'],
                    surfs=[dict(type=q['type'], R=q['R'], k=q['k'], t=q['t'], mat=q['mat'], rx=q['rx'], dy=q['dy'])
                           for q in s['surfs']])

    def check(self, case, out):
        if case['kind'] == 'sample':
            return self.check_sample(case, out)
        spec = case['spec']
        out.cls(*GL.spec_classes(spec))
        o = build(spec)
        self.trace_and_judge(case, out, o, spec)
        ed = case.get('edit')
        if ed:
            # history on one Optic: trace, edit through the public setters, trace again; the second trace must obey the
            # laws on the *edited* prescription
            o = maybe_reload(o, ed)
            spec2 = apply_edit(o, spec, ed)
            if spec2 is not None:
                out.cls('retraced_after_' + ed['kind'] + '_edit' + ('_of_reloaded_lens' if ed.get('reload') else ''))
                self.trace_and_judge(case, out, o, spec2)

    def trace_and_judge(self, case, out, o, spec):
        w = spec['wls'][case['wl'] % len(spec['wls'])]
        rays = case['rays']
        Hy = np.array([r[0] for r in rays], dtype=float)
        Px = np.array([r[1] for r in rays], dtype=float)
        Py = np.array([r[2] for r in rays], dtype=float)
        Hx = np.zeros_like(Hy)
        try:
            o.trace_generic(Hx, Hy, Px.copy(), Py.copy(), w)
        except ValueError as e:
            if 'Chebyshev input coordinates' in str(e):
                out.cls('cheb_domain_error')
                return
            raise
        rec = RT.records(o)
        stt = RT.check_trace(out, spec, rec, w, parabola_kf='C02-parabola-cancellation')
        if stt['tir']:
            out.cls('tir_seen')
        if stt['miss']:
            out.cls('miss_seen')
        if stt['valid_rays'] == 0:
            out.cls('no_ray_survives')
        out.nt(stt['powered_hits'] >= 2)

    def check_sample(self, case, out):
        from optiland.distribution import create_distribution
        o = GS.make_sample(case['name'])
        out.cls('sample')
        surfs, z = spec_from_optic(o)
        S = o.surface_group.surfaces

        gi = S[-1].geometry
        Ri = float(gi.radius)
        spec = dict(obj=dict(t='inf', n=1.0), surfs=surfs,
                    img=dict(mat=dict(kind='air'), shape=dict(R='inf' if math.isinf(Ri) else Ri,
                                                              k=float(getattr(gi, 'k', 0.0)))))
        for s_, lib in zip(surfs, S[1:-1]):
            s_['mat'] = dict(kind='mirror' if lib.is_reflective else 'lib')
        d = create_distribution('hexapolar')
        d.generate_points(3)
        th = np.linspace(0, 2 * np.pi, 9)[:-1]
        Px = np.concatenate([d.x, 0.999 * np.cos(th)])
        Py = np.concatenate([d.y, 0.999 * np.sin(th)])
        hits = 0
        for (Hx, Hy) in o.fields.get_field_coords():
            for w in o.wavelengths.get_wavelengths():
                ns = [float(np.ravel(s.material_post.n(w))[0]) for s in S]
                o.trace_generic(float(Hx), float(Hy), Px.copy(), Py.copy(), w)
                rec = RT.records(o)
                stt = RT.check_trace(out, spec, rec, w, ns=ns, parabola_kf='C02-parabola-cancellation')
                hits = max(hits, stt['powered_hits'])
        out.nt(hits >= 1)


CHECK = C02()
