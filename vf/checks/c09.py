"""C09 - reported OPD is the path difference to the chief-ray reference sphere."""
import copy
import math

import numpy as np
from hypothesis import strategies as st

from vf.harness import Check
from vf.gen import lens as GL
from vf.gen.build import build
from vf.gen.edit import edit_strategy, build_with_history, warm_all

IMG = GL.Profile(max_surfs=6, shapes=['standard', 'standard', 'even_asphere'], allow_mirror=False, keep_edges=True,
                 rho_min=2.5, steep_prob=0.0, ap_types=['EPD', 'imageFNO', 'objectNA'], max_field_deg=10.0,
                 allow_vignetting=False, max_n=2.0, zero_thickness=False, image_refracts=False, positive_power=True, curved_image=True,
                 negative_fields=True, object_medium=True)

DISTS = ['hexapolar', 'uniform', 'cross', 'ring', 'line_y', 'gq', 'gq_sym']


def make_distribution(name, n):
    from optiland import distribution as D
    if name == 'gq':
        d = D.GaussianQuadrature(is_symmetric=False)
        d.generate_points(1 + n % 6)
    elif name == 'gq_sym':
        d = D.GaussianQuadrature(is_symmetric=True)
        d.generate_points(1 + n % 6)
    else:
        d = D.create_distribution(name)
        d.generate_points({'hexapolar': 1 + n % 5, 'uniform': 4 + n % 8, 'cross': 3 + n % 9, 'ring': 4 + n % 12,
                           'line_y': 3 + n % 9}[name])
    return d


def explicit_rear_face(spec):
    """the lens of `spec` with its (refracting) image surface written as an ordinary surface of the same shape, followed
    by an image surface of that shape 0 mm behind it in the same medium"""
    t = copy.deepcopy(spec)
    ish = t['img'].get('shape') or {}
    t['surfs'].append(dict(type='standard', R=ish.get('R', GL.INF), k=ish.get('k', 0.0), coef=None, norm=None, t=0.0,
                           mat=dict(t['img']['mat']), dx=0.0, dy=0.0, rx=0.0, ry=0.0, ap=None, coat=None, stop=False,
                           hd=t['surfs'][-1].get('hd')))
    return t


def reference_opd(o, spec, Hy, w, Px, Py, n_img, xpl_ref):
    """(W_minus, W_plus): OPD in waves of every sample for the two whole-set branches of the reference sphere,
    plus the per-ray data needed for diagnostics.  Everything is recomputed from recorded points."""
    sg = o.surface_group
    finite = spec['obj']['t'] != GL.INF

    def one(px, py):
        o.trace_generic(np.zeros_like(px), np.full_like(px, Hy), px.copy(), py.copy(), w)
        p0 = np.array([sg.x[0], sg.y[0], sg.z[0]])
        d0 = np.array([sg.L[0], sg.M[0], sg.N[0]])
        p = np.array([sg.x[-1], sg.y[-1], sg.z[-1]])
        d = np.array([sg.L[-1], sg.M[-1], sg.N[-1]])
        # optical path recomputed from the recorded points, own indices
        ns, _ = GL.media(spec, w)
        opl = np.zeros(p.shape[1])
        prev = p0
        for k in range(1, sg.num_surfaces):
            cur = np.array([sg.x[k], sg.y[k], sg.z[k]])
            opl = opl + ns[k - 1] * np.sqrt(np.sum((cur - prev) ** 2, axis=0))
            prev = cur
        return p0, d0, p, d, opl

    c_p0, c_d0, c_p, c_d, c_opl = one(np.array([0.0]), np.array([0.0]))
    p0, d0, p, d, opl = one(np.asarray(Px, dtype=float), np.asarray(Py, dtype=float))
    n0 = float(GL.media(spec, w)[0][0])
    if not finite:
        # common plane wavefront through the chief ray's launch point
        obj = n0 * np.sum((p0 - c_p0) * d0, axis=0)
        c_obj = 0.0
    else:
        obj = np.zeros(p.shape[1])
        c_obj = 0.0
    z_img = float(np.ravel(sg.positions)[-1])
    centre = c_p[:, 0]
    pupil = np.array([0.0, 0.0, z_img + xpl_ref])
    R = math.sqrt(float(np.sum((centre - pupil) ** 2)))

    def to_sphere(p_, d_, sign):
        v = p_ - centre[:, None]
        b = np.sum(v * d_, axis=0)
        cc = np.sum(v * v, axis=0) - R * R
        disc = b * b - cc
        with np.errstate(all='ignore'):
            return -b + sign * np.sqrt(disc)
    res = []
    for sign in (-1.0, 1.0):
        t = to_sphere(p, d, sign)
        tc = to_sphere(c_p, c_d, sign)
        total = opl + obj + n_img * t
        total_c = c_opl + c_obj + n_img * tc
        res.append((total_c - total) / (w * 1e-3))
    return res[0], res[1], opl


class C09(Check):
    pid = 'C09'
    title = 'Reported OPD is the path difference to the chief-ray reference sphere'
    rule = ('cases: generated imaging lenses (infinite object + angular fields, finite object + object heights; real or '
            'virtual exit pupils; image medium air or glass) x field along y x wavelength x pupil distribution (hexapolar, '
            'uniform, cross, ring, line, Gaussian quadrature) and ray count. Oracle: optical paths recomputed from the '
            'recorded points with my own indices, object-space wavefront term, reference sphere centred on the chief-ray '
            'image point with radius to the ABCD exit pupil (either whole-set branch of the sphere accepted). Then OPD.rms, '
            'OPDFan, RmsWavefrontErrorVsField, ZernikeOPD input and the OPD_difference operand against the same quantity. '
            'Non-trivial: off-axis field with max|W| > 0.05 waves. Distinct = distinct case hashes.')
    assumptions = ['finite object with angular fields and fields with vignetting factors are outside the property\'s '
                   'quantifier (generated elsewhere, not here)',
                   'tolerance 1e-6 waves + 1e-11 L/lambda (rounding of path lengths of size L)']

    def budget(self, tier):
        return (100, 8) if tier == 'quick' else (800, 16)

    def strategy(self, tier):
        lens = st.tuples(GL.lens_spec(IMG, min_surfs=2), st.floats(0.0, 1.0), st.integers(0, 5)).map(
            lambda t: GL.remote_stop(t[0], t[1]) if t[2] == 0 else t[0])
        return st.fixed_dictionaries(dict(spec=lens, dist=st.sampled_from(DISTS),
                                          n=st.integers(0, 60), fld=st.integers(0, 5), wl=st.integers(0, 3),
                                          extras=st.booleans(), img_air=st.integers(0, 3), obj_glass=st.integers(0, 7),
                                          edit=edit_strategy(('index', 'radius', 'thickness', 'conic'), p_none=4)))

    def describe(self, case):
        s = case['spec']
        return dict(dist=case['dist'], n=case['n'], fld=case['fld'], obj=s['obj'], ap=s['ap'], ftype=s['ftype'],
                    fields=[f['y'] for f in s['fields']], img=s['img'], nsurf=len(s['surfs']))

    def maybe_draw(self, case, out, obj):
        """For one case in two the analysis object is drawn (view(), Agg; maps in 2d or 3d) before its values are read:
        what it reports must not depend on whether it has been looked at."""
        if case['n'] % 2 != 0:
            return
        import matplotlib.pyplot as plt
        try:
            if type(obj).__name__ in ('OPD', 'ZernikeOPD'):
                obj.view(projection='2d' if case['n'] % 4 == 0 else '3d')
            else:
                obj.view()
            out.cls('drawn_before_reading')
        except Exception:  # noqa   (a figure of undefined data is not part of the property)
            out.cls('view_raised')
        finally:
            plt.close('all')

    def check(self, case, out):
        from optiland.wavefront import Wavefront
        spec = case['spec']
        finite = spec['obj']['t'] != GL.INF
        # the property's quantifier: infinite+angle or finite+height
        if finite and spec['ftype'] == 'angle':
            spec = dict(spec)
            ps0 = GL.parax_sys(spec)
            spec['ftype'] = 'object_height'
            spec['fields'] = [dict(f, y=float(ps0.t_obj) * math.tan(math.radians(f['y']))) for f in spec['fields']]
        if case.get('img_air') == 0 and spec['surfs'][-1]['mat']['kind'] not in ('air', 'mirror') and \
                spec['img']['mat']['kind'] != 'air':
            # the image surface is the rear face of the last glass (image medium left at its default, air): the image
            # surface refracts
            spec = copy.deepcopy(spec)
            spec['img'] = dict(spec['img'], mat=dict(kind='air'))
        if case.get('obj_glass', 9) < 4 and spec['obj'].get('n', 1.0) != 1.0:
            # a dispersive object-space medium: a catalogue material instead of a constant index
            spec = copy.deepcopy(spec)
            gl = GL.glasses()
            g = gl[(case['obj_glass'] * 7919 + len(spec['surfs'])) % len(gl)]
            spec['obj'] = dict(spec['obj'], mat=dict(g), n=GL.mat_index(g, spec['wls'][spec['prim']]))
            out.cls('dispersive_object_medium')
        out.cls(*GL.spec_classes(spec))
        # optionally the lens is queried (paraxial data, traces, a wavefront), edited through the public setters and only
        # then analysed: everything below is judged against the prescription the Optic has *now*
        def warm(o_):
            warm_all(o_)
            Wavefront(o_, fields=[o_.fields.get_field_coords()[-1]], wavelengths=[o_.primary_wavelength], num_rays=3,
                      distribution='hexapolar')
        o, spec, edited = build_with_history(spec, case.get('edit'), warm, keep_image_medium=True)
        if edited:
            out.cls('analysed_after_' + case['edit']['kind'] + '_edit')
        ps = GL.parax_sys(spec)
        w = spec['wls'][case['wl'] % len(spec['wls'])]
        flds = o.fields.get_field_coords()
        Hx, Hy = flds[case['fld'] % len(flds)]
        ns, _ = GL.media(spec, w)
        n_img = ns[-1]
        o_ref, spec_ref = o, spec
        if ns[-1] != ns[-2]:
            # the same lens written with the rear face as an explicit surface and the image surface 0 mm behind it, in
            # the medium behind it: there the image surface does not refract and the reference below applies as it stands
            out.cls('image_surface_refracts')
            if spec['img'].get('shape'):
                # two coincident curved surfaces: the second intersection is at distance 0, which the tracer does not
                # resolve; the explicit form is only available for a plane image surface
                out.cls('curved_refracting_image_surface_not_judged')
                return
            if any(q['type'] == 'standard' and q['R'] != GL.INF and abs(1 + q['k']) < 0.05 for q in spec['surfs']):
                # the explicit form is a second Optic: on near-paraboloids the two traces carry different conic-root
                # noise (open finding C05-/C02-parabola-cancellation, 1e-8 mm of path), which the comparison of one
                # Optic with a reference built from its own recorded points never sees
                out.cls('refracting_image_behind_a_near_paraboloid_not_judged')
                return
            spec_ref = explicit_rear_face(spec)
            o_ref = build(spec_ref)
            ps = GL.parax_sys(spec_ref)
            ns, _ = GL.media(spec_ref, w)
            n_img = ns[-1]
        xpl = float(ps.XPL())
        if not math.isfinite(xpl) or abs(xpl) > 1e7:
            out.cls('telecentric_image_space')
            return
        ya_, ua_ = ps.marginal(spec['ap']['type'], spec['ap']['value'])
        if abs(ua_[-1]) < 1e-6 * max(abs(v) for v in ua_ + [1e-300]) or abs(ua_[-1]) < 1e-9:
            out.cls('afocal_image_space')
            return
        out.cls('virtual_exit_pupil' if xpl > 0 else 'real_exit_pupil')
        if n_img != 1.0:
            out.cls('image_in_glass')
        dist = make_distribution(case['dist'], case['n'])
        out.cls('dist_' + case['dist'])
        Px, Py = np.array(dist.x, dtype=float), np.array(dist.y, dtype=float)
        Wm, Wp, opl = reference_opd(o_ref, spec_ref, float(Hy), w, Px, Py, n_img, xpl)
        # the reference sphere must enclose the bundle at the image surface (an image is formed near the image surface);
        # otherwise "the" intersection with the sphere is ambiguous ray by ray and no OPD is defined by the property
        sg_ = o_ref.surface_group
        o_ref.trace_generic(np.zeros(1), np.array([float(Hy)]), np.zeros(1), np.zeros(1), w)
        cx, cy, cz = float(sg_.x[-1][0]), float(sg_.y[-1][0]), float(sg_.z[-1][0])
        o_ref.trace_generic(np.zeros_like(Px), np.full_like(Px, float(Hy)), Px.copy(), Py.copy(), w)
        spread = np.nanmax(np.hypot(np.array(sg_.x[-1]) - cx, np.array(sg_.y[-1]) - cy)) if len(Px) else 0.0
        Rref = math.sqrt(cx ** 2 + cy ** 2 + (cz - (float(np.ravel(sg_.positions)[-1]) + xpl)) ** 2)
        if not (spread < 0.5 * Rref):
            out.cls('bundle_not_inside_reference_sphere')
            return
        wf = Wavefront(o, fields=[(Hx, Hy)], wavelengths=[w], num_rays=None, distribution=dist)
        W = np.asarray(wf.data[0][0][0], dtype=float)
        inten = np.asarray(wf.data[0][0][1], dtype=float)
        Lsc = max(1.0, sum(abs(s['t']) for s in spec['surfs']), abs(xpl))
        tol = 1e-6 + 1e-11 * Lsc / (w * 1e-3)
        fin = np.isfinite(Wm) & np.isfinite(W)
        if not np.any(fin):
            out.cls('no_ray_survives')
            return
        weak = n_img != 1.0 and out.kf_open('C09-image-index')
        if weak:
            out.region('C09-image-index')
            Wm1, Wp1, _ = reference_opd(o_ref, spec_ref, float(Hy), w, Px, Py, 1.0, xpl)
            # weakened relation: distance to the sphere counted with index 1 (what the defective code does)
            Wm, Wp = Wm1, Wp1
        ok_m = np.all(np.abs(W[fin] - Wm[fin]) <= tol)
        ok_p = np.all(np.abs(W[fin] - Wp[fin]) <= tol)
        if o_ref is not o and not (ok_m or ok_p):
            # a refracting image surface: the statement does not say on which side of it the reference sphere lives.
            # The other consistent reading: the sphere in the medium in front of the image surface (its index, the
            # directions with which the rays arrive, the exit pupil seen from that medium) - which is the OPD of the same
            # lens whose image medium continues the last medium
            spec_g = copy.deepcopy(spec)
            spec_g['img'] = dict(spec_g['img'], mat=dict(spec['surfs'][-1]['mat']))
            o_g = build(spec_g)
            xpl_g = float(GL.parax_sys(spec_g).XPL())
            if math.isfinite(xpl_g) and abs(xpl_g) < 1e7:
                Wm_g, Wp_g, _ = reference_opd(o_g, spec_g, float(Hy), w, Px, Py, GL.media(spec_g, w)[0][-1], xpl_g)
                fg = fin & np.isfinite(Wm_g)
                if np.any(fg) and (np.all(np.abs(W[fg] - Wm_g[fg]) <= tol) or np.all(np.abs(W[fg] - Wp_g[fg]) <= tol)):
                    ok_m = True
                    out.cls('sphere_in_front_of_refracting_image_surface')
                elif spec['surfs'][-1].get('stop') and out.kf_open('C09-image-surface-refracts'):
                    # (the finding's region: the stop is the last surface, where XPL() is the distance to that surface;
                    # with the stop further in front XPL() includes the refraction at the image surface and the library
                    # agrees with the explicit form)
                    # weakened relation of the known finding (what the code does): the exit pupil seen from the medium
                    # in front of the image surface, the directions and the index of the medium behind it
                    out.region('C09-image-surface-refracts')
                    Wm, Wp, _ = reference_opd(o, spec, float(Hy), w, Px, Py, GL.media(spec, w)[0][-1], xpl_g)
                    fin = np.isfinite(Wm) & np.isfinite(W)
                    ok_m = np.all(np.abs(W[fin] - Wm[fin]) <= tol)
                    ok_p = np.all(np.abs(W[fin] - Wp[fin]) <= tol)
        best = Wm if np.nanmax(np.abs(W[fin] - Wm[fin])) <= np.nanmax(np.abs(W[fin] - Wp[fin])) else Wp
        out.expect('opd_is_path_difference_to_reference_sphere', ok_m or ok_p, max_err_waves=float(
            np.nanmax(np.abs(W[fin] - best[fin]))), tol=tol, n_img=n_img, xpl=xpl, Hy=Hy, W=W[fin][:4], ref=best[fin][:4])
        if o_ref is o:
            # (with a refracting image surface the explicit form can lose rays - total reflection at the explicit rear
            # face - that the image surface of the original merely receives: the patterns are not comparable)
            out.expect('nonfinite_samples_agree', np.array_equal(np.isfinite(W), np.isfinite(Wm) | np.isfinite(Wp)) or
                       np.array_equal(np.isfinite(W), np.isfinite(best)), W=np.isfinite(W).sum(), ref=np.isfinite(best).sum())
        chief = np.where((Px == 0) & (Py == 0))[0]
        if len(chief):
            # iterative surfaces stop at an absolute residual of 1e-6 mm that depends on the batch: the chief ray traced
            # alone and inside the bundle may differ by that much in path (C13's "surface-intersection tolerance")
            it = 2e-6 * 1.0 / (w * 1e-3) if any(q['type'] != 'standard' for q in spec['surfs']) else 0.0
            out.close('chief_ray_opd_is_zero', W[chief], 0.0, atol=1e-9 + 1e-13 * Lsc / (w * 1e-3) + it)
        # intensities are those of the traced rays
        o.trace_generic(np.zeros_like(Px), np.full_like(Px, Hy), Px.copy(), Py.copy(), w)
        out.expect('intensity_of_traced_rays', np.allclose(inten, np.array(o.surface_group.intensity[-1]), rtol=1e-13,
                                                           atol=0, equal_nan=True))
        nontrivial = Hy != 0 and np.nanmax(np.abs(W[fin])) > 0.05
        out.nt(nontrivial)
        if not case['extras'] or not (ok_m or ok_p):
            return
        # derived analyses: same quantity on their documented samples
        from optiland.wavefront import OPD, OPDFan, ZernikeOPD
        from optiland.analysis import RmsWavefrontErrorVsField
        from optiland.optimization.operand.ray import RayOperand
        from optiland import distribution as D
        rings = 2 + case['n'] % 3
        opd = OPD(o, (Hx, Hy), w, num_rings=rings)
        self.maybe_draw(case, out, opd)
        hx = D.create_distribution('hexapolar')
        hx.generate_points(rings)
        Wh = np.asarray(Wavefront(o, [(Hx, Hy)], [w], None, hx).data[0][0][0], dtype=float)
        out.close('opd_map_samples', np.asarray(opd.data[0][0][0], dtype=float), Wh, atol=1e-12, rtol=1e-12)
        out.close('opd_rms', float(opd.rms()), math.sqrt(float(np.mean(Wh ** 2))), rtol=1e-12, atol=1e-15)
        nfan = 5 + case['n'] % 6
        fan = OPDFan(o, fields=[(Hx, Hy)], wavelengths=[w], num_rays=nfan)
        self.maybe_draw(case, out, fan)
        cr = D.create_distribution('cross')
        cr.generate_points(nfan)
        Wc = np.asarray(Wavefront(o, [(Hx, Hy)], [w], None, cr).data[0][0][0], dtype=float)
        out.close('opd_fan_samples', np.asarray(fan.data[0][0][0], dtype=float), Wc, atol=1e-12, rtol=1e-12)
        out.expect('opd_fan_count', len(fan.data[0][0][0]) == 2 * nfan, got=len(fan.data[0][0][0]), want=2 * nfan)
        out.close('opd_fan_pupil_axis', np.asarray(fan.pupil_coord), np.linspace(-1, 1, nfan), atol=1e-15)
        # Zernike input
        zo = None
        try:
            zo = ZernikeOPD(o, (Hx, Hy), w, num_rings=rings, zernike_type='fringe', num_terms=10)
        except ValueError:
            pass
        if zo is not None:
            self.maybe_draw(case, out, zo)
            out.close('zernike_input_is_opd', np.asarray(zo.z, dtype=float), Wh, atol=1e-12, rtol=1e-12)
        # RMS wavefront error versus field: fields (0, Hy) for Hy in linspace(0,1,n), all wavelengths, hexapolar
        nfl, nr = 3, 2
        rv = RmsWavefrontErrorVsField(o, num_fields=nfl, num_rays=nr)
        hx2 = D.create_distribution('hexapolar')
        hx2.generate_points(nr)
        wls = o.wavelengths.get_wavelengths()
        want = np.zeros((nfl, len(wls)))
        for i, h in enumerate(np.linspace(0, 1, nfl)):
            for j, ww in enumerate(wls):
                Wi = np.asarray(Wavefront(o, [(0, h)], [ww], None, hx2).data[0][0][0], dtype=float)
                want[i, j] = math.sqrt(float(np.mean(Wi ** 2)))
        out.close('rms_wavefront_vs_field', np.asarray(rv._wavefront_error, dtype=float), want, rtol=1e-12, atol=1e-14)
        # OPD difference operand (Gaussian quadrature, documented weights)
        nq = 1 + case['n'] % 6
        val = float(RayOperand.OPD_difference(o, Hx, Hy, nq, w))
        sym = (Hx == 0 and Hy == 0)
        gq = D.GaussianQuadrature(is_symmetric=sym)
        gq.generate_points(nq)
        wts = np.asarray(gq.get_weights(nq), dtype=float)
        if not sym:
            wts = np.repeat(wts, 3)
        Wg = np.asarray(Wavefront(o, [(Hx, Hy)], [w], None, gq).data[0][0][0], dtype=float)
        want_v = float(np.mean(np.abs((Wg - np.mean(Wg)) * wts)))
        out.close('opd_difference_operand', val, want_v, rtol=1e-12, atol=1e-15)
        out.cls('derived_analyses_checked')


CHECK = C09()
