"""C18 - catalogue materials return the index their data file defines."""
import contextlib
import io
import os

import numpy as np
from hypothesis import strategies as st

from vf.harness import Check
from vf.ref import materials as RM

_ROWS = None
_ENT = {}


def rows():
    global _ROWS
    if _ROWS is None:
        _ROWS = RM.catalogue_rows()
    return _ROWS


def entry(fn):
    if fn not in _ENT:
        _ENT[fn] = RM.load_entry(fn)
    return _ENT[fn]


def quiet(fn, *a, **k):
    with contextlib.redirect_stdout(io.StringIO()):
        return fn(*a, **k)


def bad_hull(xs):
    """Intervals of wavelength where a table is not strictly increasing (interpolation undefined)."""
    xs = np.asarray(xs, dtype=float)
    d = np.diff(xs)
    out = []
    for i in np.where(d <= 0)[0]:
        lo, hi = min(xs[i], xs[i + 1]), max(xs[i], xs[i + 1])
        out.append((lo, hi))
    if out and not np.all(d >= 0):
        # a real disorder: binary search may go astray anywhere between the extremes involved
        lo = min(o[0] for o in out)
        hi = max(o[1] for o in out)
        out = [(lo, hi)]
    return out


def in_hull(w, hull, eps=1e-9):
    return any(lo - eps <= w <= hi + eps for lo, hi in hull)


D, F, C = 0.5875618, 0.4861327, 0.6562725
# accuracy of the shipped (n_d, V_d) glass-model fit, measured at the pinned commit over the 155
# Schott catalogue glasses with 20 <= V_d <= 70:  max |dn_d| = 6.96e-4, max rel. error of n_F - n_C = 0.0881.
ABBE_DN = 2 * 7.0e-4
ABBE_DREL = 2 * 0.0885

_SCHOTT = None


def schott_points():
    global _SCHOTT
    if _SCHOTT is None:
        pts, seen = [], set()
        for r in rows():
            fn = r['filename']
            if not fn.startswith('glass/schott/') or fn in seen:
                continue
            seen.add(fn)
            if r['min_wavelength'] > F or r['max_wavelength'] < C:
                continue
            e = entry(fn)
            if e['n_kind'] is None or e['n_defs'] != 1:
                continue
            nd, nF, nC = [float(RM.ref_n(e, w)[0]) for w in (D, F, C)]
            vd = (nd - 1) / (nF - nC)
            if 20 <= vd <= 70:
                pts.append((nd, vd))
        _SCHOTT = pts
    return _SCHOTT


_AMB = []


def ambiguous_rows():
    if not _AMB:
        R = rows()
        names = [r['name'].lower() for r in R]
        cats = [str(r['category_name']).lower() for r in R]
        _AMB.extend(i for i in range(len(R)) if any((names[i] in names[j] or names[i] in cats[j])
                                                     for j in range(len(R)) if j != i))
    return list(_AMB)


class C18(Check):
    pid = 'C18'
    title = 'Catalogue materials return the index their data file defines'
    rule = ('cases: (row) every catalogue row x a wavelength grid over its [min,max] (end points included; 3 points '
            'quick, 9 thorough) - enumerated completely; (wl) generated interior wavelengths as array argument; '
            '(name) exact-name look-ups with/without the row reference (quick: generated rows, thorough: all rows); '
            '(abbe) Abbe number of glass rows covering C-F; (model) (n_d,V_d) model glasses around the Schott rows. '
            'Non-trivial: a formula (not tabulated) row evaluated strictly inside its range with an array argument, '
            'or a name query whose name occurs as a substring of another row, or a model glass off a catalogue point. '
            'Distinct = distinct (kind,row,arguments) hashes.')
    assumptions = ['PyYAML parses the data files correctly (shared with the library)',
                   'tables whose wavelength column is not strictly increasing define no interpolation inside the '
                   'disordered span; those spans are skipped and counted (class ill_ordered_table)',
                   'model-glass accuracy bound is the measured residual of the shipped fit over the Schott rows '
                   '(20<=V_d<=70) x2: |dn_d|<=1.4e-3, rel. error of n_F-n_C <= 0.177']
    exhaustive = True

    def budget(self, tier):
        return (150, 8) if tier == 'quick' else (2500, 16)

    # -- cases ---------------------------------------------------------------
    def fixed_cases(self, tier):
        n = len(rows())
        k = 3 if tier == 'quick' else 9
        cases = [dict(kind='row', row=i, npts=k) for i in range(n)]
        if tier == 'thorough':
            cases += [dict(kind='name', row=i, with_ref=b) for i in range(n) for b in (False, True)]
        else:
            # every name that also occurs inside another row's name or category (where the matching rules decide)
            cases += [dict(kind='name', row=i, with_ref=False) for i in ambiguous_rows()]
        cases += [dict(kind='abbe', row=i) for i in range(n)]
        # look-ups by the short (category) name, with the row's own reference: every category whose name contains a regex
        # metacharacter, and in the thorough tier every category once
        seen = set()
        for i, r in enumerate(rows()):
            c = str(r['category_name'])
            if c.lower() in seen:
                continue
            if tier == 'thorough' or any(ch in c for ch in '()[]{}+*?.^$|\\'):
                seen.add(c.lower())
                cases.append(dict(kind='category', row=i))
        return cases

    def strategy(self, tier):
        n = len(rows())
        npts = len(schott_points())
        frac = st.floats(min_value=0.0, max_value=1.0, allow_nan=False)
        wl = st.fixed_dictionaries(dict(kind=st.just('wl'), row=st.integers(0, n - 1),
                                        t=st.lists(frac, min_size=1, max_size=8)))
        name = st.fixed_dictionaries(dict(kind=st.just('name'), row=st.integers(0, n - 1), with_ref=st.booleans()))
        model = st.fixed_dictionaries(dict(kind=st.just('model'), pt=st.integers(0, npts - 1),
                                           dn=st.floats(-0.01, 0.01), dv=st.floats(-1.0, 1.0)))
        return st.one_of(wl, name, model)

    def describe(self, case):
        c = dict(case)
        if 'row' in c:
            r = rows()[c['row']]
            c['name'] = r['name']
            c['file'] = r['filename']
        return c

    # -- oracle --------------------------------------------------------------
    def check(self, case, out):
        kind = case['kind']
        out.cls('kind_' + kind)
        if kind in ('row', 'wl'):
            return self.check_index(case, out)
        if kind == 'name':
            return self.check_name(case, out)
        if kind == 'abbe':
            return self.check_abbe(case, out)
        if kind == 'category':
            return self.check_category(case, out)
        if kind == 'model':
            return self.check_model(case, out)

    def check_index(self, case, out):
        from optiland.materials.material_file import MaterialFile
        r = rows()[case['row']]
        e = entry(r['filename'])
        path = os.path.join(RM.DB, 'data-nk', r['filename'])
        lo, hi = r['min_wavelength'], r['max_wavelength']
        if case['kind'] == 'row':
            ws = [lo + (hi - lo) * j / (case['npts'] - 1) for j in range(case['npts'])]
        else:
            ws = [lo + (hi - lo) * t for t in case['t']]
        if e['n_defs'] == 0:
            out.cls('no_n_relation')
            # outside "defines a dispersion relation": must fail cleanly, not return numbers
            try:
                m = MaterialFile(path)
                val = m.n(ws[0])
                out.fail('no_relation_fails_cleanly', file=r['filename'], returned=val)
            except (ValueError, KeyError, TypeError):
                out.ok('no_relation_fails_cleanly')
            return
        if e['n_defs'] > 1:
            out.cls('two_n_relations')
            try:
                MaterialFile(path)
                out.fail('ambiguous_relation_rejected', file=r['filename'])
            except ValueError:
                out.ok('ambiguous_relation_rejected')
            return
        m = MaterialFile(path)
        out.cls(e['n_kind'].replace(' ', '_'))
        hull_n = bad_hull(e['n_tab'][0]) if e['n_tab'] is not None else []
        if hull_n:
            out.cls('ill_ordered_table')
        if e['n_tab'] is not None:
            tlo, thi = float(np.min(e['n_tab'][0])), float(np.max(e['n_tab'][0]))
            ws_n = [w for w in ws if tlo <= w <= thi and not in_hull(w, hull_n)]
        else:
            ws_n = list(ws)
        if ws_n:
            want = RM.ref_n(e, ws_n)
            got_arr = np.atleast_1d(m.n(np.array(ws_n, dtype=float)))
            got_sc = np.array([float(m.n(float(w))) for w in ws_n])
            finite = np.isfinite(want)
            # the entry's stated range is expected to give a real index
            out.close('n_equals_data_file', got_arr[finite], want[finite], atol=1e-12, rtol=1e-11,
                      file=r['filename'], kind=e['n_kind'], wavelengths=[w for w, f in zip(ws_n, finite) if f])
            out.expect('n_scalar_equals_array', np.allclose(got_arr, got_sc, rtol=1e-14, atol=0, equal_nan=True),
                       file=r['filename'], arr=got_arr, scalar=got_sc)
            out.expect('n_nonfinite_matches', np.array_equal(np.isfinite(got_arr), finite),
                       file=r['filename'], got=got_arr, want=want)
            interior = [w for w in ws_n if lo < w < hi]
            if e['n_kind'].startswith('formula') and len(interior) >= 1 and len(ws_n) >= 2:
                out.nt()
        # extinction coefficient
        if e['k_tab'] is not None:
            out.cls('has_k')
            hull_k = bad_hull(e['k_tab'][0])
            klo, khi = float(np.min(e['k_tab'][0])), float(np.max(e['k_tab'][0]))
            ws_k = [w for w in ws if klo <= w <= khi and not in_hull(w, hull_k)]
            if ws_k:
                want = RM.ref_k(e, ws_k)
                got = np.atleast_1d(m.k(np.array(ws_k, dtype=float)))
                out.close('k_equals_table', got, want, atol=1e-14, rtol=1e-11, file=r['filename'], wavelengths=ws_k)
                got_sc = np.array([float(m.k(float(w))) for w in ws_k])
                out.expect('k_scalar_equals_array', np.allclose(got, got_sc, rtol=1e-14, atol=0, equal_nan=True), file=r['filename'])
                if len(ws_k) >= 2:
                    out.nt()
        else:
            out.cls('no_k')
            try:
                val = m.k(ws[0])
                out.fail('k_missing_raises', file=r['filename'], returned=val)
            except ValueError:
                out.ok('k_missing_raises')

    def check_name(self, case, out):
        from optiland.materials.material import Material
        r = rows()[case['row']]
        name = r['name']
        ref = r['reference'] if case['with_ref'] else None
        if case['with_ref']:
            out.cls('with_reference')
        meta = any(ch in name for ch in '()[]{}+*?.^$|\\')
        if meta:
            out.cls('name_has_regex_metachar')
        low = name.lower()
        others = sum(1 for q in rows() if q is not r and (low in q['name'].lower() or low in q['category_name'].lower()))
        if others:
            out.cls('name_is_substring_of_other_rows')
            out.nt()
        try:
            m = quiet(Material, name, ref)
        except ValueError as exc:
            if entry(r['filename'])['n_defs'] > 1 and 'Multiple refractive index' in str(exc):
                # the row's own file is ambiguous (two n relations): clean rejection is the stated behaviour
                out.cls('lookup_of_ambiguous_file')
                out.ok('ambiguous_relation_rejected')
                return
            out.fail('exact_name_found', query=name, reference=ref, error=str(exc)[:200])
            return
        got = m.material_data.get('name')
        clause = 'exact_name_returns_that_name'
        if got != name and out.kf_open('C18-category-shadow') and \
                str(m.material_data.get('category_name', '')).lower() == low:
            # weakened relation: the returned row's *category* equals the query
            out.region('C18-category-shadow')
            out.ok(clause)
        else:
            out.expect(clause, got == name, query=name, reference=ref, returned=got,
                       returned_file=m.material_data.get('filename'))
        # the object must then behave as the file it names
        e = entry(m.material_data['filename'])
        if e['n_defs'] == 1:
            w = 0.5 * (m.material_data['min_wavelength'] + m.material_data['max_wavelength'])
            if e['n_tab'] is None or not in_hull(w, bad_hull(e['n_tab'][0])):
                out.close('lookup_n_equals_file', float(m.n(w)), float(RM.ref_n(e, w)[0]), atol=1e-12, rtol=1e-11,
                          file=m.material_data['filename'])

    def check_category(self, case, out):
        from optiland.materials.material import Material
        r = rows()[case['row']]
        cat = str(r['category_name'])
        if any(ch in cat for ch in '()[]{}+*?.^$|\\'):
            out.cls('category_has_regex_metachar')
        out.nt()
        try:
            m = quiet(Material, cat, r['reference'])
        except ValueError as exc:
            if 'Multiple refractive index' in str(exc):
                out.cls('lookup_of_ambiguous_file')
                return
            out.fail('category_name_found', query=cat, reference=r['reference'], error=str(exc)[:200])
            return
        got_cat = str(m.material_data.get('category_name', ''))
        got_name = str(m.material_data.get('name', ''))
        out.expect('category_lookup_returns_that_category', got_cat.lower() == cat.lower() or got_name.lower() == cat.lower(),
                   query=cat, reference=r['reference'], returned=got_name, returned_category=got_cat)

    def check_abbe(self, case, out):
        from optiland.materials.material_file import MaterialFile
        r = rows()[case['row']]
        e = entry(r['filename'])
        if e['n_defs'] != 1 or r['min_wavelength'] > F or r['max_wavelength'] < C:
            out.cls('abbe_not_applicable')
            return
        if e['n_tab'] is not None and bad_hull(e['n_tab'][0]):
            out.cls('abbe_not_applicable')
            return
        nd, nF, nC = [float(RM.ref_n(e, w)[0]) for w in (D, F, C)]
        if not np.isfinite([nd, nF, nC]).all() or abs(nF - nC) < 1e-9:
            out.cls('abbe_ill_conditioned')
            return
        want = (nd - 1) / (nF - nC)
        m = MaterialFile(os.path.join(RM.DB, 'data-nk', r['filename']))
        got = float(m.abbe())
        # conditioning: V = (nd-1)/(nF-nC); rounding of nF-nC at 1e-15 relative to n
        rt = 1e-9 + 1e-14 / abs(nF - nC)
        out.close('abbe_number', got, want, rtol=rt, atol=0.0, file=r['filename'])
        out.nt(r['group'] == 'glass')

    def check_model(self, case, out):
        from optiland.materials.abbe import AbbeMaterial
        nd0, vd0 = schott_points()[case['pt']]
        nd, vd = nd0 + case['dn'], min(70.0, max(20.0, vd0 + case['dv']))
        m = AbbeMaterial(nd, vd)
        g_d, g_F, g_C = [float(m.n(w)) for w in (D, F, C)]
        out.close('model_glass_nd', g_d, nd, atol=ABBE_DN, nd=nd, vd=vd)
        disp = (nd - 1) / vd
        out.close('model_glass_dispersion', g_F - g_C, disp, atol=ABBE_DREL * disp, nd=nd, vd=vd,
                  got_V=(g_d - 1) / (g_F - g_C) if g_F != g_C else None)
        arr = np.atleast_1d(m.n(np.array([D, F, C])))
        out.expect('model_scalar_equals_array', np.allclose(arr, [g_d, g_F, g_C], rtol=1e-15, atol=0), nd=nd, vd=vd)
        out.expect('model_k_zero', float(m.k(D)) == 0.0)
        out.nt(case['dn'] != 0 or case['dv'] != 0)


CHECK = C18()
