"""C03 - rays start at the requested field point and aim at the requested pupil point."""
import copy
import math

import numpy as np
from hypothesis import strategies as st

from vf.harness import Check
from vf.gen.util import weighted
from vf.gen import lens as GL
from vf.gen.build import build, used_optic
from vf.gen.edit import edit_strategy, apply_edit, maybe_reload

LAUNCH = GL.Profile(max_surfs=6, shapes=['standard'], allow_vignetting=True, keep_edges=True, rho_min=1.5,
                    steep_prob=0.1, max_field_deg=25.0, negative_fields=True, unsorted_fields=True, object_medium=True)

DISTS = ['line_x', 'line_y', 'positive_line_x', 'positive_line_y', 'random', 'uniform', 'hexapolar', 'cross', 'ring',
         'gq', 'gq_sym']


def rays_strategy():
    f = st.floats
    pt = st.tuples(f(-1, 1), f(0, 1), f(0, 2 * math.pi)).map(
        lambda t: (round(t[0], 4), round(math.sqrt(t[1]) * math.cos(t[2]), 4), round(math.sqrt(t[1]) * math.sin(t[2]), 4)))
    special = st.sampled_from([(0.0, 0.0, 0.0), (1.0, 0.0, 0.0), (-1.0, 0.0, 1.0), (1.0, 1.0, 0.0), (0.5, 0.0, -1.0),
                               (1.0, -0.6, 0.8)])
    return st.lists(st.one_of(pt, special), min_size=2, max_size=10)


class C03(Check):
    pid = 'C03'
    title = 'Rays start at the requested field point and aim at the requested pupil point'
    rule = ('cases: (launch) generated lens x every aperture kind {EPD,imageFNO,objectNA} x field type {angle,'
            'object_height} x telecentric flag (valid and invalid combinations) x generated (Hy,Px,Py) bundles, scalar and '
            'array arguments; entrance pupil from the ABCD reference. (dist) every named distribution x ray count x '
            'vignetting factors, and Optic.trace ray counts. Non-trivial (launch): off-axis field and off-axis pupil '
            'point with the stop not on surface 1; (dist): count >= 3 with a non-zero vignetting factor. '
            'Distinct = distinct case hashes.')
    assumptions = ['telecentric launch is checked with object-space index 1 (NA = sin(theta))',
                   'objectNA with an infinite object is outside the stated combinations (not generated)',
                   'with vignetting factors the aim point is only required to shrink towards the pupil centre '
                   '(same sign, |coordinate| <= unvignetted): the property does not fix the law']

    def budget(self, tier):
        return (150, 8) if tier == 'quick' else (1500, 16)

    def strategy(self, tier):
        launch = st.fixed_dictionaries(dict(kind=st.just('launch'), spec=GL.lens_spec(LAUNCH), rays=rays_strategy(),
                                            wl=st.integers(0, 3),
                                            edit=edit_strategy(('index', 'radius', 'thickness', 'stop'), p_none=2),
                                            reuse=st.sampled_from([False, False, True])))
        dist = st.fixed_dictionaries(dict(kind=st.just('dist'), name=st.sampled_from(DISTS), n=st.integers(1, 64),
                                          vx=st.sampled_from([0.0, 0.0, 0.1, 0.35]),
                                          vy=st.sampled_from([0.0, 0.0, 0.2, 0.5]), seed=st.integers(0, 2 ** 16)))
        return weighted((2, launch), (1, dist))

    def describe(self, case):
        if case['kind'] == 'dist':
            return case
        s = case['spec']
        return dict(kind='launch', rays=case['rays'], obj=s['obj'], ap=s['ap'], ftype=s['ftype'],
                    fields=s['fields'], stop=[i + 1 for i, q in enumerate(s['surfs']) if q['stop']][0],
                    nsurf=len(s['surfs']))

    # ------------------------------------------------------------------
    def check(self, case, out):
        if case['kind'] == 'dist':
            return self.check_dist(case, out)
        spec = case['spec']
        out.cls(*GL.spec_classes(spec))
        finite = spec['obj']['t'] != GL.INF
        ps = GL.parax_sys(spec)
        epd = ps.EPD(spec['ap']['type'], spec['ap']['value'])
        epl = ps.EPL()
        if not (math.isfinite(epd) and math.isfinite(epl)):
            out.cls('pupil_not_finite')
            return
        fdeg = None
        # express the same pupil / field in every representation
        mf = GL.max_field(spec)
        variants = []
        for ap_type in ('EPD', 'imageFNO', 'objectNA'):
            for ftype in ('angle', 'object_height'):
                for tele in (False, True):
                    variants.append((ap_type, ftype, tele))
        w = spec['wls'][case['wl'] % len(spec['wls'])]
        any_nt = False
        for ap_type, ftype, tele in variants:
            v = copy.deepcopy(spec)
            v = GL.set_aperture_kind(v, ap_type) if v['ap']['type'] == 'EPD' else self.to_epd(v, ps, ap_type)
            if v is None or v['ap']['type'] != ap_type:
                continue
            if ap_type == 'objectNA' and not finite:
                continue    # outside the stated combinations
            # field values: keep the same numbers, reinterpret their type
            if ftype != spec['ftype']:
                for fd in v['fields']:
                    if ftype == 'object_height':
                        fd['y'] = (ps.t_obj if finite else 100.0) * math.tan(math.radians(fd['y']))
                    else:
                        fd['y'] = math.degrees(math.atan(fd['y'] / ps.t_obj)) if finite else fd['y']
                v['ftype'] = ftype
            v['tele'] = tele
            if tele and v['obj'].get('n', 1.0) != 1.0:
                continue
            valid = True
            if ftype == 'object_height' and not finite:
                valid = False
            if tele and (not finite or ap_type in ('EPD', 'imageFNO')):
                valid = False
            if tele and ftype == 'angle':
                valid = False      # rejected by the library's own documented rule
            label = '%s/%s/%s/%s' % (ap_type, ftype, 'tele' if tele else 'nontele', 'finite' if finite else 'inf')
            nt = self.check_variant(out, v, valid, case['rays'], w, label, stated_invalid=(
                (ftype == 'object_height' and not finite) or (tele and not finite) or
                (tele and ap_type in ('EPD', 'imageFNO'))), edit=case.get('edit'), reuse=case.get('reuse', False))
            any_nt = any_nt or nt
        out.nt(any_nt)

    @staticmethod
    def to_epd(v, ps, ap_type):
        """spec has a non-EPD aperture: go through EPD"""
        epd = ps.EPD(v['ap']['type'], v['ap']['value'])
        v['ap'] = dict(type='EPD', value=epd)
        return GL.set_aperture_kind(v, ap_type)

    def check_variant(self, out, v, valid, rays, w, label, stated_invalid, edit=None, reuse=False):
        # the lens on a new Optic, or on an Optic that held another lens and was reset()
        o = build(v, optic=used_optic()) if reuse else build(v)
        if reuse:
            out.cls('optic_reset_and_reused')
        nt = self.judge(out, o, v, valid, rays, w, label, stated_invalid)
        if valid and edit:
            # history on one Optic: launch, edit through the public setters, launch again; the pupil the rays are aimed
            # at is the pupil of the *edited* prescription
            o = maybe_reload(o, edit)
            v2 = apply_edit(o, v, edit)
            if v2 is not None:
                out.cls('relaunched_after_' + edit['kind'] + '_edit')
                self.judge(out, o, v2, True, rays, w, label, False)
        return nt

    def judge(self, out, o, v, valid, rays, w, label, stated_invalid):
        ps = GL.parax_sys(v)
        if valid:
            # a lens without power (after an edit, or an image F-number on an afocal system) has no finite entrance pupil
            # diameter: there is no pupil point to aim at
            try:
                ok = math.isfinite(float(ps.EPD(v['ap']['type'], v['ap']['value']))) and math.isfinite(float(ps.EPL()))
            except (ZeroDivisionError, OverflowError, ValueError):
                ok = False
            if not ok:
                out.cls('pupil_not_finite')
                return False
        Hy = np.array([r[0] for r in rays], dtype=float)
        Px = np.array([r[1] for r in rays], dtype=float)
        Py = np.array([r[2] for r in rays], dtype=float)
        Hx = np.zeros_like(Hy)
        out.cls('combo_' + label, 'valid_combo' if valid else 'invalid_combo')
        if not valid:
            try:
                o.trace_generic(Hx, Hy, Px.copy(), Py.copy(), w)
            except ValueError:
                out.ok('invalid_combination_rejected')
                return False
            if stated_invalid:
                out.fail('invalid_combination_rejected', combo=label)
            return False
        # valid combination: must trace without raising
        try:
            o.trace_generic(Hx, Hy, Px.copy(), Py.copy(), w)
        except ValueError as e:
            out.fail('valid_combination_traces', combo=label, error=str(e)[:200])
            return False
        out.ok('valid_combination_traces')
        S0 = o.surface_group.surfaces[0]
        x0, y0, z0 = [np.array(a, dtype=float) for a in (S0.x, S0.y, S0.z)]
        L, M, N = [np.array(a, dtype=float) for a in (S0.L, S0.M, S0.N)]
        n = len(Hy)
        out.expect('launch_count', len(x0) == n, got=len(x0), want=n, combo=label)
        if len(x0) != n:
            return False
        out.expect('unit_intensity', np.all(np.array(S0.intensity) == 1.0), combo=label)
        out.expect('zero_path', np.all(np.array(S0.opd) == 0.0), combo=label)
        out.close('unit_direction', L * L + M * M + N * N, np.ones(n), atol=1e-12, combo=label)
        out.expect('forward_direction', np.all(N > 0), combo=label, N=N[:4])
        finite = v['obj']['t'] != GL.INF
        mf = GL.max_field(v)
        epd = float(ps.EPD(v['ap']['type'], v['ap']['value']))
        epl = float(ps.EPL())
        z_obj = -float(ps.t_obj)
        Lsc = max(1.0, abs(epl), abs(z_obj) if finite else 0.0, epd)
        fy = np.array([f['y'] for f in v['fields']], dtype=float)
        vxs = np.array([f['vx'] for f in v['fields']], dtype=float)
        vys = np.array([f['vy'] for f in v['fields']], dtype=float)
        has_vig = bool(np.any(vxs) or np.any(vys))
        if has_vig:
            out.cls('vignetting_variant')
        # origin / direction clauses
        if v['ftype'] == 'object_height':
            out.close('origin_height', y0, Hy * mf, atol=1e-12 * Lsc, combo=label)
            out.close('origin_x', x0, np.zeros(n), atol=1e-12 * Lsc, combo=label)
            out.close('origin_z', z0, np.full(n, z_obj), atol=1e-12 * Lsc, combo=label)
        elif not finite:
            want = np.tan(np.radians(Hy * mf))
            out.close('field_angle', M / N, want, atol=1e-12, rtol=1e-12, combo=label)
            out.close('field_angle_x', L, np.zeros(n), atol=1e-12, combo=label)
        else:
            # finite object, angular field: the rays of one field share one origin, and the line from it to the
            # pupil centre makes the field angle
            out.close('origin_z', z0, np.full(n, z_obj), atol=1e-12 * Lsc, combo=label)
            want_y = -np.tan(np.radians(Hy * mf)) * (epl - z_obj)
            out.close('origin_angle', y0, want_y, atol=1e-9 * Lsc, rtol=1e-9, combo=label)
        if v['tele']:
            na = v['ap']['value']
            chief = (Px == 0) & (Py == 0)
            if np.any(chief):
                out.close('telecentric_chief_parallel', np.hypot(L[chief], M[chief]), 0.0, atol=1e-12, combo=label)
            r = np.hypot(Px, Py)
            # sin(theta) of a ray aimed at pupil radius r: direction ~ (Px, Py, sqrt(1-NA^2)/NA)
            want_tan = r * na / math.sqrt(1 - na * na)
            if not has_vig:
                out.close('telecentric_na', np.hypot(L, M) / N, want_tan, atol=1e-12, rtol=1e-10, combo=label)
        else:
            # aim: the line meets z = EPL at (Px,Py)*EPD/2
            with np.errstate(all='ignore'):
                t = (epl - z0) / N
                ax = x0 + t * L
                ay = y0 + t * M
            wx, wy = Px * epd / 2, Py * epd / 2
            tol = 1e-9 * Lsc
            if not has_vig:
                out.close('aim_x', ax, wx, atol=tol, rtol=1e-9, combo=label, epl=epl, epd=epd)
                out.close('aim_y', ay, wy, atol=tol, rtol=1e-9, combo=label, epl=epl, epd=epd)
            else:
                okx = (np.abs(ax) <= np.abs(wx) + tol) & (ax * wx >= -tol * np.abs(wx))
                oky = (np.abs(ay) <= np.abs(wy) + tol) & (ay * wy >= -tol * np.abs(wy))
                out.expect('vignetting_only_shrinks', np.all(okx & oky), combo=label, ax=ax[:4], wx=wx[:4],
                           ay=ay[:4], wy=wy[:4])
        # wavelength carried: trace() returns the rays object
        rays = o.trace_generic(Hx, Hy, Px.copy(), Py.copy(), w)
        out.expect('wavelength_carried', np.all(np.asarray(rays.w) == w), combo=label)
        # scalar arguments give the same launch as arrays
        j = len(Hy) - 1
        o.trace_generic(0.0, float(Hy[j]), float(Px[j]), float(Py[j]), w)
        S0b = o.surface_group.surfaces[0]
        same = all(np.allclose(np.ravel(getattr(S0b, k))[0], a[j], rtol=1e-13, atol=1e-13 * Lsc)
                   for k, a in (('x', x0), ('y', y0), ('z', z0), ('L', L), ('M', M), ('N', N)))
        out.expect('scalar_equals_array', same, combo=label)
        # integer-typed arrays (pupil and field coordinates that happen to be whole numbers) give the same launch as floats
        whole = np.where((Px == np.round(Px)) & (Py == np.round(Py)) & (Hy == np.round(Hy)))[0]
        if len(whole):
            o.trace_generic(np.zeros(len(whole), dtype=int), Hy[whole].astype(int), Px[whole].astype(int),
                            Py[whole].astype(int), w)
            S0c = o.surface_group.surfaces[0]
            same_i = all(np.allclose(np.ravel(getattr(S0c, k)).astype(float), a[whole], rtol=1e-13, atol=1e-13 * Lsc, equal_nan=True)
                         for k, a in (('x', x0), ('y', y0), ('z', z0), ('L', L), ('M', M), ('N', N)))
            out.expect('integer_arrays_equal_float_arrays', same_i, combo=label, n=len(whole))
        stop = ps.stop
        return bool(np.any((Hy != 0) & ((Px != 0) | (Py != 0))) and stop != 1 and mf > 0)

    # ------------------------------------------------------------------
    def check_dist(self, case, out):
        from optiland import distribution as D
        name, n, vx, vy = case['name'], case['n'], case['vx'], case['vy']
        out.cls('dist_' + name)

        def make():
            if name == 'gq':
                return D.GaussianQuadrature(is_symmetric=False)
            if name == 'gq_sym':
                return D.GaussianQuadrature(is_symmetric=True)
            if name == 'random':
                return D.RandomDistribution(seed=case['seed'])
            return D.create_distribution(name)
        if name in ('gq', 'gq_sym'):
            if not 1 <= n <= 6:
                try:
                    make().generate_points(n)
                    out.fail('gq_out_of_range_rejected', n=n)
                except ValueError:
                    out.ok('gq_out_of_range_rejected')
                return
        if name == 'hexapolar':
            n = 1 + (n - 1) % 12
        if name == 'uniform':
            n = 2 + (n - 1) % 39
        d0 = make()
        d0.generate_points(n)
        x0, y0 = np.array(d0.x, dtype=float), np.array(d0.y, dtype=float)
        if name == 'hexapolar':
            want = 1 + 3 * n * (n + 1)
        elif name == 'cross':
            want = 2 * n
        elif name == 'gq':
            want = 3 * n
        elif name == 'uniform':
            g = np.linspace(-1, 1, n)
            gx, gy = np.meshgrid(g, g)
            r2 = gx ** 2 + gy ** 2
            lo, hi = int(np.sum(r2 <= 1 - 1e-12)), int(np.sum(r2 <= 1 + 1e-12))
            want = None
            out.expect('documented_count', lo <= len(x0) <= hi, name=name, n=n, got=len(x0), lo=lo, hi=hi)
        else:
            want = n
        if want is not None:
            out.expect('documented_count', len(x0) == want and len(y0) == want, name=name, n=n, got=len(x0), want=want)
        out.expect('inside_unit_pupil', np.all(x0 ** 2 + y0 ** 2 <= 1 + 1e-12), name=name, n=n,
                   worst=float(np.max(x0 ** 2 + y0 ** 2)) if len(x0) else 0)
        dv = make()
        dv.generate_points(n, vx, vy)
        xv, yv = np.array(dv.x, dtype=float), np.array(dv.y, dtype=float)
        out.expect('vignetted_count', len(xv) == len(x0), name=name)
        if len(xv) == len(x0):
            ok = np.all(np.abs(xv) <= np.abs(x0) + 1e-15) and np.all(np.abs(yv) <= np.abs(y0) + 1e-15) and \
                np.all(xv * x0 >= 0) and np.all(yv * y0 >= 0)
            out.expect('vignetting_only_shrinks_distribution', ok, name=name, vx=vx, vy=vy)
            if vx == 0 and vy == 0:
                out.expect('zero_vignetting_is_identity', np.array_equal(xv, x0) and np.array_equal(yv, y0), name=name)
        out.nt(len(x0) >= 3 and (vx > 0 or vy > 0))
        # Optic.trace delivers that many rays (named distributions only)
        if name in ('gq', 'gq_sym'):
            return
        if len(x0) == 0:
            out.cls('empty_distribution')   # uniform n=2: no grid point inside the disk; nothing to trace
            return
        o = _singlet()
        rays = o.trace(0.0, 1.0, 0.55, num_rays=n, distribution=name)
        out.expect('trace_ray_count', len(rays.x) == len(x0), name=name, got=len(rays.x), want=len(x0))


_SINGLET = None


def _singlet():
    global _SINGLET
    if _SINGLET is None:
        from optiland.optic import Optic
        from optiland.materials import IdealMaterial
        o = Optic()
        o.add_surface(index=0, radius=np.inf, thickness=np.inf)
        o.add_surface(index=1, radius=50.0, thickness=5.0, material=IdealMaterial(1.5), is_stop=True)
        o.add_surface(index=2, radius=-50.0, thickness=45.0)
        o.add_surface(index=3)
        o.set_aperture('EPD', 10.0)
        o.set_field_type('angle')
        o.add_field(y=0.0)
        o.add_field(y=5.0, vx=0.1, vy=0.2)
        o.add_wavelength(0.55, is_primary=True)
        _SINGLET = o
    return _SINGLET


CHECK = C03()
