"""C16 - ray intensity is never created and is removed exactly as specified."""
import math

import numpy as np
from hypothesis import strategies as st

from vf.harness import Check
from vf.gen.util import weighted
from vf.gen import lens as GL
from vf.gen.build import build
from vf.gen.edit import edit_strategy, build_with_history, warm_all, WITH_SCALE
from vf.ref import trace as RT
from vf.checks.c02 import ray_bundle


_IR = None


def ir_plates():
    """Thick plane-parallel plates of catalogue glasses traced in the near infrared, beyond the end of their extinction
    tables but inside the range of their dispersion formulas (enumerated, not generated): up to 16 glasses, 3 wavelengths."""
    global _IR
    if _IR is None:
        from vf.ref import materials as RM
        from vf.gen.simple import spec as mk, surf
        rows = RM.catalogue_rows()
        names, cats = {}, set()
        for r in rows:
            names[r['name'].lower()] = names.get(r['name'].lower(), 0) + 1
            cats.add(r['category_name'].lower())
        picked = []
        for r in rows:
            if r['group'] != 'glass' or not r['filename'].startswith(('glass/schott/', 'glass/ohara/', 'glass/hoya/')):
                continue
            if names[r['name'].lower()] != 1 or r['name'].lower() in cats:
                continue
            e = RM.load_entry(r['filename'])
            if e['n_defs'] != 1 or not e['n_kind'].startswith('formula') or e['k_tab'] is None or not e.get('range'):
                continue
            kx = np.asarray(e['k_tab'][0], dtype=float)
            if float(np.max(kx)) < 1.0 and float(e['range'][1]) >= 2.0:
                picked.append(dict(kind='glass', name=r['name'], file=r['filename']))
        picked = picked[::max(1, len(picked) // 16)][:16]
        cases = []
        for g in picked:
            for w in (1.06, 1.55, 2.0):
                sp = mk([surf(R='inf', t=25.0, mat=g, stop=True), surf(R='inf', t=5.0)], ap=('EPD', 6.0), fields=(0.0, 3.0),
                        wls=(w,))
                cases.append(dict(spec=sp, rays=[[0.0, 0.0, 0.0], [1.0, 0.0, 0.5], [0.5, 0.3, -0.4], [0.0, 0.7, 0.0]], wl=0,
                                  analysis=False, ir_plate=True))
        _IR = cases
    return _IR


class C16(Check):
    pid = 'C16'
    title = 'Ray intensity is never created and is removed exactly as specified'
    rule = ('cases: generated lenses (profile "intensity": radial apertures with/without obscuration on random surfaces, '
            'media with k in {0,1e-7..1e-4}, catalogue glasses with k tables, SimpleCoating T,R in [0,1], mirrors, tilts) '
            'x generated ray bundles. Oracle: per ray and surface I_k = I_{k-1} * exp(-4 pi k d / lambda) * [inside '
            'aperture] * (T | R), with d from the recorded points, k from my own table interpolation, aperture test in my '
            'own local frame. Non-trivial: >=1 ray clipped at an interior surface and >=1 absorbing medium or coating. '
            'Distinct = distinct (spec, bundle) hashes.')
    assumptions = ['polarization off (unpolarised SimpleCoating only); Fresnel coatings belong to C17',
                   'rays within 1e-9 r_max of an aperture edge (inner or outer) are not judged (either side accepted)',
                   'non-finite rays are not judged here (C02)']

    def budget(self, tier):
        return (300, 8) if tier == 'quick' else (3000, 16)

    def fixed_cases(self, tier):
        return ir_plates()

    def strategy(self, tier):
        main = st.fixed_dictionaries(dict(spec=GL.lens_spec('intensity'), rays=ray_bundle(), wl=st.integers(0, 3),
                                          edit=edit_strategy(WITH_SCALE, p_none=4)))
        # lenses of planes and conics with apertures and obscurations that are rescaled with scale_system() before the trace
        scaled = st.fixed_dictionaries(dict(spec=GL.lens_spec('scalable'), rays=ray_bundle(), wl=st.integers(0, 3),
                                            edit=st.fixed_dictionaries(dict(kind=st.just('scale'), s=st.integers(0, 1000),
                                                                            f=st.floats(0.8, 1.25)))))
        return weighted((5, main), (1, scaled))

    def describe(self, case):
        s = case['spec']
        return dict(rays=case['rays'][:3], n_rays=len(case['rays']),
                    surfs=[dict(R=q['R'], t=q['t'], mat=q['mat'], ap=q['ap'], coat=q['coat']) for q in s['surfs']])

    def check(self, case, out):
        spec = case['spec']
        if case.get('ir_plate'):
            out.cls('infrared_plate_beyond_the_k_table')
            out.nt()
        else:
            out.cls(*GL.spec_classes(spec))
        # optionally: query the lens, edit it through the public setters, and only then trace; the model below is the
        # model of the prescription the Optic has now
        o, spec, edited = build_with_history(spec, case.get('edit'), warm_all)
        if edited:
            out.cls('traced_after_' + case['edit']['kind'] + '_edit')
        w = spec['wls'][case['wl'] % len(spec['wls'])]
        rays = case['rays']
        Hy = np.array([r[0] for r in rays], dtype=float)
        Px = np.array([r[1] for r in rays], dtype=float)
        Py = np.array([r[2] for r in rays], dtype=float)
        res = o.trace_generic(np.zeros_like(Hy), Hy, Px.copy(), Py.copy(), w)
        rec = RT.records(o)
        ns, ks = GL.media(spec, w)
        models = RT.surface_models(spec)
        n = len(Hy)
        I_prev = np.ones(n)
        got0 = rec['intensity'][0]
        out.close('launch_intensity_one', got0, np.ones(n), atol=0)
        P_prev = np.array([rec['x'][0], rec['y'][0], rec['z'][0]])
        alive = np.all(np.isfinite(P_prev), axis=0)
        clipped_interior = False
        attenuated = False
        K = len(spec['surfs'])
        I_lib_prev = got0
        for k, (shape, frame, is_mirror, sd) in enumerate(models, start=1):
            P = np.array([rec['x'][k], rec['y'][k], rec['z'][k]])
            D = np.array([rec['L'][k], rec['M'][k], rec['N'][k]])
            I_lib = rec['intensity'][k]
            fin = np.all(np.isfinite(P), axis=0) & np.all(np.isfinite(D), axis=0) & alive
            alive = fin
            if not np.any(fin):
                break
            g = np.where(fin)[0]
            d = np.sqrt(np.sum((P[:, g] - P_prev[:, g]) ** 2, axis=0))
            kk = ks[k - 1]
            I = I_prev[g] * np.exp(-4 * math.pi * kk * (d * 1e3) / w)
            if kk > 0:
                attenuated = True
            undecided = np.zeros(len(g), dtype=bool)
            ap = sd.get('ap')
            if ap:
                Pl = frame.to_local_point(P[:, g])
                r2 = Pl[0] ** 2 + Pl[1] ** 2
                rmax2, rmin2 = ap['r_max'] ** 2, ap.get('r_min', 0.0) ** 2
                out_ = (r2 > rmax2) | (r2 < rmin2)
                rr = np.sqrt(r2)
                undecided = (np.abs(rr - ap['r_max']) <= 1e-9 * ap['r_max']) | \
                    ((rmin2 > 0) & (np.abs(rr - ap.get('r_min', 0.0)) <= 1e-9 * ap['r_max']))
                I = np.where(out_, 0.0, I)
                if np.any(out_) and k <= K:
                    clipped_interior = True
            coat = sd.get('coat')
            if coat and coat != 'fresnel':
                I = I * (coat['R'] if is_mirror else coat['T'])
                attenuated = True
            j = ~undecided
            out.close('intensity_model', I_lib[g][j], I[j], atol=1e-15, rtol=1e-11, surface=k, rays=g[j][:5])
            out.expect('intensity_in_unit_interval', np.all((I_lib[g] >= 0) & (I_lib[g] <= 1.0)), surface=k,
                       worst=float(np.max(I_lib[g])))
            out.expect('intensity_never_increases', np.all(I_lib[g] <= I_lib_prev[g] * (1 + 1e-15)), surface=k)
            out.expect('zero_stays_zero', np.all(I_lib[g][I_lib_prev[g] == 0] == 0), surface=k)
            I_full = I_prev.copy()
            I_full[g] = np.where(undecided, I_lib[g], I)
            I_prev = I_full
            I_lib_prev = I_lib
            P_prev = P
        if np.any(alive):
            g = np.where(alive)[0]
            out.close('rays_i_equals_last_record', np.asarray(res.i, dtype=float)[g], rec['intensity'][-1][g], atol=0)
        # a bundle whose rays carry different wavelengths (RealRays.w is an array): every ray is attenuated as it is in a
        # bundle of its own wavelength
        if len(spec['wls']) >= 2 and n >= 2 and not case.get('ir_plate'):
            w_b = [x for x in spec['wls'] if x != w][case['wl'] % (len(spec['wls']) - 1)]
            sg = o.surface_group

            def launch(wv):
                r = o.ray_generator.generate_rays(np.zeros_like(Hy), Hy.copy(), Px.copy(), Py.copy(), w)
                r.w = np.asarray(wv, dtype=float) * np.ones(n)
                return r
            first = np.arange(n) % 2 == 0
            sg.trace(launch(np.where(first, w, w_b)))
            I_mix = np.array(sg.intensity, dtype=float)
            sg.trace(launch(w))
            I_a = np.array(sg.intensity, dtype=float)
            sg.trace(launch(w_b))
            I_b = np.array(sg.intensity, dtype=float)
            want = np.where(first[None, :], I_a, I_b)
            both = np.isfinite(I_mix) & np.isfinite(want)
            # exp(-x) carries the rounding of x: relative tolerance 1e-12 max(1, |ln I|)
            with np.errstate(all='ignore'):
                lev = np.maximum(1.0, np.abs(np.log(np.where(want[both] > 0, want[both], 1.0))))
            err = np.abs(I_mix[both] - want[both])
            # iterated surfaces stop at a residual of 1e-6 mm that depends on the bundle (C13's surface-intersection
            # tolerance): the absorbing path next to each of them is known to 2e-6 mm only
            n_it = sum(1 for q in spec['surfs'] if q['type'] != 'standard')
            kmax = max(max(GL.media(spec, x)[1]) for x in (w, w_b))
            extra = n_it * 2 * 4 * math.pi * kmax * 2e-3 / min(w, w_b)
            bad = err > (1e-12 * lev + extra) * np.abs(want[both]) + 1e-300
            out.expect('ray_attenuated_at_its_own_wavelength', not np.any(bad), wavelengths=[float(w), float(w_b)],
                       n_bad=int(np.sum(bad)), got=I_mix[both][bad][:3], want=want[both][bad][:3])
            out.cls('bundle_of_mixed_wavelengths')
        # analyses report the intensities of the traced rays
        if case.get('analysis', True):
            from optiland.analysis import SpotDiagram
            try:
                sp = SpotDiagram(o, num_rings=2)
                f0 = o.fields.get_field_coords()
                w0 = o.wavelengths.get_wavelengths()
                for fi, fld in enumerate(f0[:2]):
                    rr = o.trace(fld[0], fld[1], w0[0], 2, 'hexapolar')
                    out.expect('spot_intensity_equals_trace',
                               np.array_equal(np.asarray(sp.data[fi][0][2]), np.asarray(o.surface_group.intensity[-1, :]),
                                              equal_nan=True), field=fi)
                # ray fans: the intensities reported for the x fan and for the y fan are those of these fans
                from optiland.analysis import RayFan
                npt = 5 + 2 * (len(rays) % 3)
                rf = RayFan(o, num_points=npt)
                for fld in rf.fields[:2]:
                    d = rf.data['%s' % (fld,)]['%s' % (w0[0],)]
                    for key, dist in (('intensity_x', 'line_x'), ('intensity_y', 'line_y')):
                        o.trace(fld[0], fld[1], w0[0], npt, dist)
                        out.expect('rayfan_intensity_equals_trace',
                                   np.array_equal(np.asarray(d[key], dtype=float),
                                                  np.asarray(o.surface_group.intensity[-1, :], dtype=float), equal_nan=True),
                                   fan=key, field=list(map(float, fld)))
            except ValueError as e:
                if 'Chebyshev' not in str(e):
                    raise
        out.nt(clipped_interior and attenuated)
        if clipped_interior:
            out.cls('ray_clipped')
        if attenuated:
            out.cls('attenuating_element')


CHECK = C16()
