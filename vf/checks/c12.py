"""C12 - geometric analyses are faithful functions of the traced rays."""
import copy
import math

import numpy as np
from hypothesis import strategies as st

from vf.harness import Check
from vf.gen import lens as GL
from vf.gen.build import build
from vf.gen.edit import edit_strategy, build_with_history, warm_all

IMG = GL.Profile(max_surfs=5, shapes=['standard', 'standard', 'standard', 'even_asphere'], allow_mirror=False,
                 keep_edges=True, rho_min=3.0, steep_prob=0.0, ap_types=['EPD', 'imageFNO', 'objectNA'], max_field_deg=10.0,
                 allow_vignetting=False, max_n=2.0, zero_thickness=False, image_refracts=False, positive_power=True,
                 allow_apertures=True, curved_image=True, unsorted_fields=True, negative_fields=True,
                 object_medium=True)

f = st.floats
ANALYSES = ['spot', 'rayfan', 'encircled', 'rms_field', 'distortion', 'grid_distortion', 'field_curvature',
            'pupil_aberration', 'operands']


def hexapolar(rings):
    """the documented hexapolar samples (the sampling itself is C03's business)"""
    from optiland.distribution import create_distribution
    d = create_distribution('hexapolar')
    d.generate_points(rings)
    return np.array(d.x, dtype=float), np.array(d.y, dtype=float)


def trace_pts(o, Hx, Hy, Px, Py, w):
    Px = np.asarray(Px, dtype=float)
    o.trace_generic(np.full_like(Px, Hx), np.full_like(Px, Hy), Px.copy(), np.asarray(Py, dtype=float).copy(), w)
    sg = o.surface_group
    return {k: np.array(getattr(sg, k), dtype=float) for k in ('x', 'y', 'z', 'L', 'M', 'N', 'intensity')}


class C12(Check):
    pid = 'C12'
    title = 'Geometric analyses are faithful functions of the traced rays'
    rule = ('cases: generated imaging lens x one analysis from {SpotDiagram (centroid, RMS and geometric radii), RayFan, '
            'EncircledEnergy, RmsSpotSizeVsField, Distortion (f-tan / f-theta), GridDistortion, FieldCurvature, '
            'PupilAberration, real-ray and spot-size operands} x arguments (fields "all" or an explicit list differing from '
            'the lens, wavelengths "all" / explicit list with or without the primary / single, ray counts). Oracle: the same '
            'quantity recomputed from rays traced independently with trace_generic on a twin lens built from the same spec; '
            'Coddington\'s equations along the traced chief ray for field curvature; the ABCD paraxial chief ray for '
            'distortion; curve read from the drawn figure (Agg) for encircled energy. Non-trivial: off-axis field, >= 2 '
            'wavelengths, or explicit lists used. Distinct = distinct case hashes.')
    assumptions = ['the independent rays come from the library\'s own tracer on a never-analysed twin (C02 decides the '
                   'tracer); what is decided here is that each analysis is the documented function of those rays',
                   'Coddington clause (generalised to the local tangential/sagittal curvatures of conics and even aspheres) '
                   'for centred refracting systems, tolerance 1e-5 |dz| + 1e-7 L (the parabasal pair has delta = 1e-5); '
                   'with a curved image the foci are also compared, in absolute z, with those of the same lens with a plane image',
                   'centroid clauses are judged when the reference wavelength is unambiguous (wavelengths = "all", or an '
                   'explicit list whose entry at the lens\'s primary index is the primary wavelength)']

    def budget(self, tier):
        return (250, 8) if tier == 'quick' else (1200, 16)

    def strategy(self, tier):
        return st.fixed_dictionaries(dict(spec=GL.lens_spec(IMG, min_surfs=2), analysis=st.sampled_from(ANALYSES),
                                          fields=st.sampled_from(['all', 'all', 'explicit']),
                                          wls=st.sampled_from(['all', 'all', 'with_primary', 'without_primary', 'single']),
                                          n=st.integers(0, 50), h=f(0.0, 1.0), px=f(-0.8, 0.8), py=f(-0.8, 0.8),
                                          edit=edit_strategy(('index', 'radius', 'thickness', 'conic'), p_none=4)))

    def describe(self, case):
        s = case['spec']
        return dict(analysis=case['analysis'], fields=case['fields'], wls=case['wls'], n=case['n'], obj=s['obj'],
                    ap=s['ap'], ftype=s['ftype'], lens_fields=[fd['y'] for fd in s['fields']], lens_wls=s['wls'],
                    prim=s['prim'], nsurf=len(s['surfs']))

    # ------------------------------------------------------------------
    def args(self, case, o, spec):
        lens_f = o.fields.get_field_coords()
        if case['fields'] == 'explicit':
            flds = [(0.0, round(0.3 + 0.1 * (case['n'] % 5), 3)), (0.0, 0.0), (0.0, round(case['h'], 3))]
        else:
            flds = 'all'
        lw = o.wavelengths.get_wavelengths()
        prim = o.primary_wavelength
        mode = case['wls']
        if mode == 'with_primary':
            w = [prim] + [x for x in lw if x != prim][:1]
        elif mode == 'without_primary':
            w = [x for x in lw if x != prim][:2] or [round(prim * 1.03, 6)]
        elif mode == 'single':
            w = [lw[case['n'] % len(lw)]]
        else:
            w = 'all'
        return flds, w, lens_f, lw, prim

    def check(self, case, out):
        spec = copy.deepcopy(case['spec'])
        finite = spec['obj']['t'] != GL.INF
        out.cls(*GL.spec_classes(spec))
        out.cls('analysis_' + case['analysis'], 'fields_' + case['fields'], 'wls_' + case['wls'])
        # optionally the analysed lens is first queried, then edited through the public setters; the twin that supplies
        # the independent rays is always built fresh from the prescription the analysed lens has now
        o, spec, edited = build_with_history(spec, case.get('edit'), warm_all, keep_image_medium=True)
        if edited:
            out.cls('analysed_after_' + case['edit']['kind'] + '_edit')
        tw = build(spec)
        ps = GL.parax_sys(spec)
        ya, ua = ps.marginal(spec['ap']['type'], spec['ap']['value'])
        if not all(map(math.isfinite, list(ya) + list(ua))):
            out.cls('reference_degenerate')
            return
        self.Lsc = max(1.0, sum(abs(s['t']) for s in spec['surfs']))
        flds, wls, lens_f, lens_w, prim = self.args(case, o, spec)
        F = lens_f if flds == 'all' else flds
        Wl = lens_w if wls == 'all' else wls
        explicit = flds != 'all' or wls != 'all'
        offaxis = any(h != 0 for _, h in F)
        try:
            getattr(self, 'a_' + case['analysis'])(case, out, spec, o, tw, ps, flds, wls, F, Wl, prim, lens_w)
        except ValueError as e:
            if 'Chebyshev' in str(e):
                return
            raise
        out.nt(offaxis and (len(Wl) >= 2 or explicit))

    def maybe_draw(self, case, out, obj):
        """For one case in three the analysis is drawn (view(), Agg) before its reported values are read: what it reports
        must not depend on whether it has been looked at."""
        if case['n'] % 3 != 0:
            return
        import matplotlib.pyplot as plt
        try:
            obj.view()
            out.cls('drawn_before_reading')
        except Exception:  # noqa   (a figure of undefined data is not part of the property)
            out.cls('view_raised')
        finally:
            plt.close('all')

    def prim_ref(self, o, Wl, prim):
        """index of the reference (primary) wavelength inside the list handed to the analysis, or None if ambiguous"""
        pi = o.wavelengths.primary_index
        if pi < len(Wl) and Wl[pi] == prim:
            return pi
        return None

    # -- analyses --------------------------------------------------------
    def a_spot(self, case, out, spec, o, tw, ps, flds, wls, F, Wl, prim, lens_w):
        from optiland.analysis import SpotDiagram
        rings = 2 + case['n'] % 3
        sd = SpotDiagram(o, fields=flds, wavelengths=wls, num_rings=rings)
        self.maybe_draw(case, out, sd)
        px, py = hexapolar(rings)
        ref = []
        for i, (hx, hy) in enumerate(F):
            row = []
            for j, w in enumerate(Wl):
                r = trace_pts(tw, hx, hy, px, py, w)
                row.append(r)
                for k, q in enumerate(('x', 'y', 'intensity')):
                    out.close('spot_points', np.asarray(sd.data[i][j][k], dtype=float), r[q][-1], atol=1e-12 * self.Lsc,
                              rtol=1e-12, field=i, wl=j, quantity=q)
            ref.append(row)
        pi = self.prim_ref(o, Wl, prim)
        if pi is None:
            kf = out.kf_open('C12-explicit-wavelength-index')
            if kf:
                out.region('C12-explicit-wavelength-index')
            if o.wavelengths.primary_index >= len(Wl):
                # no wavelength of the list can be addressed with the lens's primary index
                try:
                    sd.centroid()
                    out.ok('centroid_defined_for_explicit_lists')
                except IndexError:
                    if not kf:
                        out.fail('centroid_defined_for_explicit_lists', wls=Wl, primary_index=o.wavelengths.primary_index)
            out.cls('centroid_reference_ambiguous')
            return
        cen = sd.centroid()
        rms = sd.rms_spot_radius()
        geo = sd.geometric_spot_radius()
        # querying the radii must not change the stored spot data or the centroid (history on the analysis object)
        cen2 = sd.centroid()
        out.expect('spot_queries_do_not_change_data', all(
            np.array_equal(np.asarray(sd.data[i][j][k], dtype=float), ref[i][j][q][-1], equal_nan=True) or
            np.allclose(np.asarray(sd.data[i][j][k], dtype=float), ref[i][j][q][-1], rtol=1e-12, atol=1e-12 * self.Lsc,
                        equal_nan=True)
            for i in range(len(F)) for j in range(len(Wl)) for k, q in enumerate(('x', 'y', 'intensity'))) and
            np.array_equal(np.asarray(cen, dtype=float), np.asarray(cen2, dtype=float), equal_nan=True))
        for i in range(len(F)):
            cx, cy = float(np.mean(ref[i][pi]['x'][-1])), float(np.mean(ref[i][pi]['y'][-1]))
            out.close('spot_centroid', [float(cen[i][0]), float(cen[i][1])], [cx, cy], atol=1e-12 * self.Lsc, rtol=1e-12)
            for j in range(len(Wl)):
                r2 = (ref[i][j]['x'][-1] - cx) ** 2 + (ref[i][j]['y'][-1] - cy) ** 2
                if np.all(np.isfinite(r2)):
                    out.close('spot_rms_radius', float(rms[i][j]), math.sqrt(float(np.mean(r2))), rtol=1e-10,
                              atol=1e-13 * self.Lsc)
                    out.close('spot_geometric_radius', float(geo[i][j]), math.sqrt(float(np.max(r2))), rtol=1e-10,
                              atol=1e-13 * self.Lsc)

    def a_rayfan(self, case, out, spec, o, tw, ps, flds, wls, F, Wl, prim, lens_w):
        from optiland.analysis import RayFan
        n = 5 + 2 * (case['n'] % 4)
        kf = out.kf_open('C12-explicit-wavelength-index')
        try:
            rf = RayFan(o, fields=flds, wavelengths=wls, num_points=n)
            self.maybe_draw(case, out, rf)
        except KeyError:
            if prim not in Wl:
                if kf:
                    out.region('C12-explicit-wavelength-index')
                else:
                    out.fail('rayfan_defined_for_explicit_lists', wls=Wl, primary=prim)
                return
            raise
        p = np.linspace(-1, 1, n)
        out.close('rayfan_pupil_axis', np.asarray(rf.data['Px']), p, atol=1e-15)
        if prim not in Wl:
            out.cls('fan_reference_ambiguous')
            return
        for (hx, hy) in F:
            rx0 = trace_pts(tw, hx, hy, p, np.zeros(n), prim)
            ry0 = trace_pts(tw, hx, hy, np.zeros(n), p, prim)
            xo, yo = rx0['x'][-1][n // 2], ry0['y'][-1][n // 2]
            for w in Wl:
                rx = trace_pts(tw, hx, hy, p, np.zeros(n), w)
                ry = trace_pts(tw, hx, hy, np.zeros(n), p, w)
                d = rf.data['%s' % ((hx, hy),)]['%s' % w]
                out.close('rayfan_x', np.asarray(d['x'], dtype=float), rx['x'][-1] - xo, atol=1e-12 * self.Lsc, rtol=1e-12)
                out.close('rayfan_y', np.asarray(d['y'], dtype=float), ry['y'][-1] - yo, atol=1e-12 * self.Lsc, rtol=1e-12)
                out.close('rayfan_intensity', np.asarray(d['intensity_y'], dtype=float), ry['intensity'][-1], rtol=1e-13)

    def a_encircled(self, case, out, spec, o, tw, ps, flds, wls, F, Wl, prim, lens_w):
        from optiland.analysis import EncircledEnergy
        import matplotlib.pyplot as plt
        rings = 2 + case['n'] % 3
        w = prim if wls == 'all' else Wl[0]
        ee = EncircledEnergy(o, fields=flds, wavelength=w, num_rays=rings, distribution='hexapolar', num_points=24)
        self.maybe_draw(case, out, ee)
        px, py = hexapolar(rings)
        tot = []
        for i, (hx, hy) in enumerate(F):
            r = trace_pts(tw, hx, hy, px, py, w)
            out.close('encircled_points', np.asarray(ee.data[i][0][0], dtype=float), r['x'][-1], atol=1e-12 * self.Lsc)
            tot.append(float(np.nansum(r['intensity'][-1])))
        if any(not np.all(np.isfinite(np.asarray(ee.data[i][0][0], dtype=float))) for i in range(len(F))):
            out.cls('encircled_with_failed_rays')
            return
        plt.close('all')
        ee.view()
        ax = plt.gcf().axes[0]
        lines = [ln for ln in ax.lines if len(ln.get_xdata()) == 24]
        plt.close('all')
        out.expect('encircled_one_curve_per_field', len(lines) == len(F), got=len(lines), want=len(F))
        for i, ln in enumerate(lines[:len(F)]):
            y = np.asarray(ln.get_ydata(), dtype=float)
            xr_ = np.asarray(ln.get_xdata(), dtype=float)
            # the whole curve: energy of the rays within radius r of the spot centroid (rays at r within 1e-9 may fall on
            # either side)
            rr_ = trace_pts(tw, F[i][0], F[i][1], px, py, w)
            xi, yi, ei = rr_['x'][-1], rr_['y'][-1], rr_['intensity'][-1]
            rad = np.hypot(xi - np.mean(xi), yi - np.mean(yi))
            tol_r = 1e-9 * max(float(np.nanmax(rad)), 1e-12 * self.Lsc)
            lo = np.array([np.nansum(ei[rad <= r_ - tol_r]) for r_ in xr_])
            hi = np.array([np.nansum(ei[rad <= r_ + tol_r]) for r_ in xr_])
            out.expect('encircled_energy_is_energy_within_radius',
                       np.all((y >= lo - 1e-12 * (1 + hi)) & (y <= hi + 1e-12 * (1 + hi))), field=i,
                       worst=float(np.max(np.maximum(lo - y, y - hi))))
            if len(set(np.round(ei[np.isfinite(ei)], 12))) > 1:
                out.cls('encircled_with_unequal_ray_energies')
            out.expect('encircled_energy_non_decreasing', np.all(np.diff(y) >= -1e-12), field=i)
            out.close('encircled_energy_reaches_total', float(y[-1]), tot[i], rtol=1e-12, atol=1e-12, field=i)
            out.expect('encircled_energy_starts_at_or_above_zero', y[0] >= 0, field=i)

    def a_rms_field(self, case, out, spec, o, tw, ps, flds, wls, F, Wl, prim, lens_w):
        from optiland.analysis import RmsSpotSizeVsField
        nf = 3 + case['n'] % 3
        rings = 2 + case['n'] % 2
        pi = self.prim_ref(o, Wl, prim)
        kf = out.kf_open('C12-explicit-wavelength-index')
        try:
            rv = RmsSpotSizeVsField(o, num_fields=nf, wavelengths=wls, num_rings=rings)
            self.maybe_draw(case, out, rv)
        except IndexError:
            if o.wavelengths.primary_index >= len(Wl):
                if kf:
                    out.region('C12-explicit-wavelength-index')
                else:
                    out.fail('rms_vs_field_defined_for_explicit_lists', wls=Wl, primary_index=o.wavelengths.primary_index)
                return
            raise
        if pi is None:
            out.cls('centroid_reference_ambiguous')
            return
        px, py = hexapolar(rings)
        got = np.asarray(rv._spot_size, dtype=float)
        for i, h in enumerate(np.linspace(0, 1, nf)):
            rp = trace_pts(tw, 0.0, h, px, py, Wl[pi])
            cx, cy = float(np.mean(rp['x'][-1])), float(np.mean(rp['y'][-1]))
            for j, w in enumerate(Wl):
                r = trace_pts(tw, 0.0, h, px, py, w)
                r2 = (r['x'][-1] - cx) ** 2 + (r['y'][-1] - cy) ** 2
                if np.all(np.isfinite(r2)):
                    out.close('rms_spot_vs_field', got[i][j], math.sqrt(float(np.mean(r2))), rtol=1e-10,
                              atol=1e-13 * self.Lsc)

    def paraxial_image_height(self, ps, spec):
        mf = GL.max_field(spec)
        yb, ub = ps.chief(spec['ftype'], mf)
        return float(yb[-1]), mf

    def field_ok(self, out, spec, ps, mf):
        """distortion needs a field and a paraxial image height that is large against the trace's rounding"""
        if spec['img'].get('shape'):
            out.cls('distortion_on_curved_image_not_judged')     # paraxial height "on the actual image surface" is ambiguous
            return False
        if mf < 1e-3:
            out.cls('no_field')
            return False
        ybar = float(ps.chief(spec['ftype'], mf)[0][-1])
        Fs = max(self.Lsc, abs(float(ps.t_obj)) if math.isfinite(ps.t_obj) else 0.0, abs(float(ps.EPL())))
        if not math.isfinite(ybar) or 1e-11 * Fs / max(abs(ybar), 1e-300) > 1e-5:
            out.cls('paraxial_scale_ill_conditioned')
            return False
        return True

    def a_distortion(self, case, out, spec, o, tw, ps, flds, wls, F, Wl, prim, lens_w):
        from optiland.analysis import Distortion
        mf = GL.max_field(spec)
        if not self.field_ok(out, spec, ps, mf):
            return
        dtype = ['f-tan', 'f-theta'][case['n'] % 2]
        npts = 4 + case['n'] % 5
        d = Distortion(o, wavelengths=wls, num_points=npts, distortion_type=dtype)
        self.maybe_draw(case, out, d)
        Hy = np.linspace(1e-10, 1, npts)
        for j, w in enumerate(Wl):
            o2 = tw
            o2.trace_generic(np.zeros(npts), Hy.copy(), np.zeros(npts), np.zeros(npts), w)
            yr = np.array(o2.surface_group.y[-1], dtype=float)
            # paraxial chief-ray height on the actual image surface, at this wavelength, per unit of the field variable
            # (the library's chief ray - real and paraxial alike - is the ray aimed at the centre of the entrance pupil
            # of the primary wavelength, whatever the wavelength it is traced at)
            psw = GL.parax_sys(spec, w)
            ybar, _ = psw.chief(spec['ftype'], mf, aim=ps)
            ybar = float(ybar[-1])
            if spec['ftype'] == 'angle':
                tm = math.tan(math.radians(mf))
                yp = ybar * np.tan(np.radians(Hy * mf)) / tm if dtype == 'f-tan' else ybar * np.radians(Hy * mf) / tm
            else:
                yp = ybar * Hy                         # image height is linear in object height for both types
            want = 100 * (yr - yp) / yp
            got = np.asarray(d.data[j], dtype=float)
            fin = np.isfinite(want) & (np.abs(yp) > 1e-6 * abs(ybar))
            # the library derives its paraxial scale from a real ray at field 1e-10, whose image height carries the
            # absolute rounding of the trace (~1e-15 x coordinate scale): relative noise 1e-5 Fs/|ybar| (in per cent: x100)
            Fs = max(self.Lsc, abs(float(ps.t_obj)) if math.isfinite(ps.t_obj) else 0.0, abs(float(ps.EPL())))
            # (measured on the unchanged tree: at most 4e-13 Fs/|ybar| per cent over generated lenses; allowed: 1e-9)
            noise = 1e-9 * Fs / max(abs(ybar), 1e-300)
            out.close('distortion_is_departure_from_paraxial_height', got[fin], want[fin], atol=1e-5 + noise, rtol=1e-6,
                      dtype=dtype, ftype=spec['ftype'])

    def a_grid_distortion(self, case, out, spec, o, tw, ps, flds, wls, F, Wl, prim, lens_w):
        from optiland.analysis import GridDistortion
        mf = GL.max_field(spec)
        if not self.field_ok(out, spec, ps, mf):
            return
        dtype = ['f-tan', 'f-theta'][case['n'] % 2]
        npts = 3 + case['n'] % 3
        w = prim if wls == 'all' else Wl[0]
        gd = GridDistortion(o, wavelength=w, num_points=npts, distortion_type=dtype)
        self.maybe_draw(case, out, gd)
        ext = np.linspace(-math.sqrt(2) / 2, math.sqrt(2) / 2, npts)
        HX, HY = np.meshgrid(ext, ext)
        tw.trace_generic(HX.flatten(), HY.flatten(), np.zeros(npts * npts), np.zeros(npts * npts), w)
        xr = np.array(tw.surface_group.x[-1], dtype=float).reshape(npts, npts)
        yr = np.array(tw.surface_group.y[-1], dtype=float).reshape(npts, npts)
        out.close('grid_real_points', np.asarray(gd.data['xr'], dtype=float), xr, atol=1e-12 * self.Lsc)
        out.close('grid_real_points', np.asarray(gd.data['yr'], dtype=float), yr, atol=1e-12 * self.Lsc)
        psw = GL.parax_sys(spec, w)
        ybar = float(psw.chief(spec['ftype'], mf, aim=ps)[0][-1])
        if spec['ftype'] != 'angle':
            xp, yp = ybar * HX, ybar * HY
        else:
            tm = math.tan(math.radians(mf))
            if dtype == 'f-tan':
                xp, yp = ybar * np.tan(np.radians(HX * mf)) / tm, ybar * np.tan(np.radians(HY * mf)) / tm
            else:
                xp, yp = ybar * np.radians(HX * mf) / tm, ybar * np.radians(HY * mf) / tm
        # a positive field angle in x images to the same side as a positive field angle in y (rotational symmetry):
        # the predicted x uses the same sign convention as the real x of the traced grid
        # sign convention of the x field, read off a real chief ray at a very small x field (free of distortion; the whole
        # grid cannot be used for this: with hundreds of per cent of distortion its points lie across the axis)
        tw.trace_generic(np.array([1e-4]), np.zeros(1), np.zeros(1), np.zeros(1), w)
        x_small = float(np.array(tw.surface_group.x[-1], dtype=float)[0])
        sgn = (np.sign(x_small * ybar) or 1.0) if math.isfinite(x_small) else 1.0
        xp = xp * sgn
        delta = np.sqrt((xp - xr) ** 2 + (yp - yr) ** 2)
        rp = np.sqrt(xp ** 2 + yp ** 2)
        with np.errstate(all='ignore'):
            want = float(np.nanmax(100 * delta / rp))
        if math.isfinite(want):
            Fs = max(self.Lsc, abs(float(ps.t_obj)) if math.isfinite(ps.t_obj) else 0.0, abs(float(ps.EPL())))
            noise = 1e-11 * Fs / max(abs(ybar), 1e-300)         # relative noise of the library's 1e-10-field scale
            out.close('grid_max_distortion', float(gd.data['max_distortion']), want, rtol=1e-5, atol=1e-5 + 300 * noise)
            out.close('grid_predicted_y', np.asarray(gd.data['yp'], dtype=float), yp, rtol=1e-6 + noise,
                      atol=(1e-9 + noise) * abs(ybar))
            out.close('grid_predicted_x', np.asarray(gd.data['xp'], dtype=float), xp, rtol=1e-6 + noise,
                      atol=(1e-9 + noise) * abs(ybar))

    def a_field_curvature(self, case, out, spec, o, tw, ps, flds, wls, F, Wl, prim, lens_w):
        from optiland.analysis import FieldCurvature
        from vf.ref import trace as RT
        npts = 3 + case['n'] % 4
        fc = FieldCurvature(o, wavelengths=wls, num_points=npts)
        self.maybe_draw(case, out, fc)
        Hy = np.linspace(0, 1, npts)
        near_parabola = any(s['type'] == 'standard' and s['R'] != GL.INF and abs(1 + s['k']) < 0.05 for s in spec['surfs'])
        if near_parabola and out.kf_open('C12-parabola-cancellation'):
            out.region('C12-parabola-cancellation')
            return
        # metamorphic: the absolute z of a focus does not depend on the image surface the distance is measured from
        flat = None
        if spec['img'].get('shape'):
            fspec = copy.deepcopy(spec)
            fspec['img'].pop('shape')
            of = build(fspec)
            fcf = FieldCurvature(of, wavelengths=wls, num_points=npts)
            flat = (of, fcf)
        meridional = all(s['type'] in ('standard', 'even_asphere') and s['mat']['kind'] != 'mirror' and
                         not (s['dx'] or s['dy'] or s['rx'] or s['ry']) for s in spec['surfs'])
        models = RT.surface_models(spec)
        for j, w in enumerate(Wl):
            ns, _ = GL.media(spec, w)
            tw.trace_generic(np.zeros(npts), Hy.copy(), np.zeros(npts), np.zeros(npts), w)
            sg = tw.surface_group
            P = [np.array([sg.x[k], sg.y[k], sg.z[k]], dtype=float) for k in range(sg.num_surfaces)]
            D = [np.array([sg.L[k], sg.M[k], sg.N[k]], dtype=float) for k in range(sg.num_surfaces)]
            K = len(spec['surfs'])
            got_t = np.asarray(fc.data[j][0], dtype=float)
            got_s = np.asarray(fc.data[j][1], dtype=float)
            if flat is not None:
                of, fcf = flat
                noise0 = self.pair_noise(tw, Hy, w)
                if near_parabola:
                    noise0 = {k: np.zeros_like(v) for k, v in noise0.items()}
                of.trace_generic(np.zeros(npts), Hy.copy(), np.zeros(npts), np.zeros(npts), w)
                zf = np.array(of.surface_group.z[-1], dtype=float)
                zc = P[K + 1][2]
                for name, g1, g0 in (('tangential', got_t, np.asarray(fcf.data[j][0], dtype=float)),
                                     ('sagittal', got_s, np.asarray(fcf.data[j][1], dtype=float))):
                    fin = np.isfinite(g1) & np.isfinite(g0) & np.isfinite(zc) & np.isfinite(zf) & np.isfinite(noise0[name]) & \
                        (np.abs(g0) < 1e6 * self.Lsc)
                    out.close('focus_z_independent_of_image_shape', (zc + g1)[fin], (zf + g0)[fin],
                              atol=1e-7 * self.Lsc + 1e-5 * float(np.max(np.abs(zc - zf)[fin], initial=0.0)),
                              rtol=1.0, scale=1e-5 * np.abs(g0[fin]) + 20 * noise0[name][fin], curve=name, wl=j)
                out.cls('focus_vs_flat_image_checked')
            if not meridional:
                out.cls('coddington_not_applicable')
                continue
            finite = spec['obj']['t'] != GL.INF
            with np.errstate(all='ignore'):
                if finite:
                    s_ = -np.sqrt(np.sum((P[1] - P[0]) ** 2, axis=0))
                    inv_s, inv_t = 1.0 / s_, 1.0 / s_
                else:
                    inv_s, inv_t = np.zeros(npts), np.zeros(npts)
                for k in range(1, K + 1):
                    q = spec['surfs'][k - 1]
                    shape, frame = models[k - 1][0], models[k - 1][1]
                    n1, n2 = ns[k - 1], ns[k]
                    # local profile z(y) in the meridional plane: slope, tangential and sagittal curvature
                    yl = P[k][1]
                    z1 = shape.grad(np.zeros(npts), yl)[1]
                    z2 = shape.c / np.sqrt(1 - (1 + shape.k) * shape.c ** 2 * yl ** 2) ** 3
                    if shape.typ == 'even_asphere':
                        for i, a in enumerate(shape.coef or []):
                            e = 2 * (i + 1)
                            z2 = z2 + a * e * (e - 1) * yl ** (e - 2)
                    m = np.sqrt(1 + z1 ** 2)
                    kap_t = z2 / m ** 3
                    kap_s = np.where(np.abs(yl) > 1e-9 * max(1e-3, float(q.get('hd') or 1.0)),
                                     z1 / np.where(yl == 0, 1.0, yl) / m, z2)
                    nrm = np.array([np.zeros(npts), -z1 / m, 1.0 / m])
                    cosI = np.abs(np.sum(D[k - 1] * nrm, axis=0))
                    cosIp = np.abs(np.sum(D[k] * nrm, axis=0))
                    obl = n2 * cosIp - n1 * cosI
                    # sagittal: n'/s' = n/s + obl*kap_s ; tangential: n' cos^2 I'/t' = n cos^2 I/t + obl*kap_t
                    inv_s = (n1 * inv_s + obl * kap_s) / n2
                    inv_t = (n1 * cosI ** 2 * inv_t + obl * kap_t) / (n2 * cosIp ** 2)
                    if k < K:
                        d = np.sqrt(np.sum((P[k + 1] - P[k]) ** 2, axis=0))
                        inv_s = 1.0 / (1.0 / inv_s - d)
                        inv_t = 1.0 / (1.0 / inv_t - d)
                dK = np.sqrt(np.sum((P[K + 1] - P[K]) ** 2, axis=0))
                Nimg = D[K][2]
                dz_s = (1.0 / inv_s - dK) * Nimg
                dz_t = (1.0 / inv_t - dK) * Nimg
            # the rounding of a well-conditioned trace, amplified by the pair's tiny separation, is allowed for; on a
            # near-paraboloid that amplified noise IS finding C12-parabola-cancellation and is not allowed for
            noise = self.pair_noise(tw, Hy, w)
            if near_parabola:
                noise = {k: np.zeros_like(v) for k, v in noise.items()}
            for name, got, want in (('tangential', got_t, dz_t), ('sagittal', got_s, dz_s)):
                fin = np.isfinite(want) & np.isfinite(got) & (np.abs(want) < 1e6 * self.Lsc) & np.isfinite(noise[name])
                out.close('field_curvature_is_coddington_focus', got[fin], want[fin], atol=1e-7 * self.Lsc, rtol=1.0,
                          scale=1e-5 * np.abs(want[fin]) + 10 * noise[name][fin], curve=name, wl=j)
                if np.any(10 * noise[name][fin] > 1e-5 * np.abs(want[fin]) + 1e-7 * self.Lsc):
                    out.cls('parabasal_pair_rounding_dominates')
            out.cls('coddington_checked')
            if any(s['type'] != 'standard' or s['k'] != 0 for s in spec['surfs']):
                out.cls('coddington_on_aspheric_profile')

    def pair_noise(self, tw, Hy, w):
        """rounding noise of a focus found by intersecting two rays +-delta from the chief ray: spread of my own
        intersection over three nearby values of delta (the analysis uses 1e-5), per field point and plane"""
        n = len(Hy)
        res = {'tangential': [], 'sagittal': []}
        for dl in (1e-5, 1.37e-5, 0.73e-5):
            for name, (ax, cs) in (('tangential', ('y', 'M')), ('sagittal', ('x', 'L'))):
                P = np.tile(np.array([-dl, dl]), n)
                Z = np.zeros(2 * n)
                tw.trace_generic(Z.copy(), np.repeat(Hy, 2), Z.copy() if name == 'tangential' else P,
                                 P if name == 'tangential' else Z.copy(), w)
                sg = tw.surface_group
                a = np.array(getattr(sg, ax)[-1], dtype=float)
                z = np.array(sg.z[-1], dtype=float)
                c = np.array(getattr(sg, cs)[-1], dtype=float)
                N = np.array(sg.N[-1], dtype=float)
                with np.errstate(all='ignore'):
                    t1 = ((a[1::2] - a[::2]) * N[1::2] - (z[1::2] - z[::2]) * c[1::2]) / (c[::2] * N[1::2] - c[1::2] * N[::2])
                res[name].append(t1 * N[::2])
        return {k: np.max(np.array(v), axis=0) - np.min(np.array(v), axis=0) for k, v in res.items()}

    def a_pupil_aberration(self, case, out, spec, o, tw, ps, flds, wls, F, Wl, prim, lens_w):
        from optiland.analysis import PupilAberration
        n = 5 + 2 * (case['n'] % 3)
        pa = PupilAberration(o, fields=flds if flds != 'all' else 'all', wavelengths=wls if wls != 'all' else 'all',
                             num_points=n)
        self.maybe_draw(case, out, pa)
        F2 = o.fields.get_field_coords() if flds == 'all' else flds
        p = np.linspace(-1, 1, n)
        stop = ps.stop
        psp = GL.parax_sys(spec, prim)
        ya, _ = psp.marginal(spec['ap']['type'], spec['ap']['value'])
        dstop = float(ya[stop - 1])
        if abs(dstop) < 1e-9:
            out.cls('stop_at_an_image')
            return
        if pa.fields == 'all':
            pass
        for (hx, hy) in F2:
            for w in Wl:
                key_f, key_w = '%s' % ((hx, hy),), '%s' % w
                if key_f not in pa.data or key_w not in pa.data[key_f]:
                    out.fail('pupil_aberration_has_requested_samples', field=key_f, wl=key_w)
                    return
                rx = trace_pts(tw, hx, hy, p, np.zeros(n), w)
                ry = trace_pts(tw, hx, hy, np.zeros(n), p, w)
                ex = (p * dstop - rx['x'][stop]) / dstop * 100
                ey = (p * dstop - ry['y'][stop]) / dstop * 100
                ex[rx['intensity'][stop] == 0] = np.nan
                ey[ry['intensity'][stop] == 0] = np.nan
                out.close('pupil_aberration_x', np.asarray(pa.data[key_f][key_w]['x'], dtype=float), ex, atol=1e-7,
                          rtol=1e-8)
                out.close('pupil_aberration_y', np.asarray(pa.data[key_f][key_w]['y'], dtype=float), ey, atol=1e-7,
                          rtol=1e-8)

    def a_operands(self, case, out, spec, o, tw, ps, flds, wls, F, Wl, prim, lens_w):
        from optiland.optimization.operand.ray import RayOperand as RO
        K = len(spec['surfs'])
        k = 1 + case['n'] % (K + 1)
        hx, hy = 0.0, case['h']
        w = Wl[0]
        r = trace_pts(tw, hx, hy, [case['px']], [case['py']], w)
        for name, q in (('x_intercept', 'x'), ('y_intercept', 'y'), ('z_intercept', 'z'), ('L', 'L'), ('M', 'M'), ('N', 'N')):
            got = float(getattr(RO, name)(o, k, hx, hy, case['px'], case['py'], w))
            out.close('real_ray_operand', got, float(r[q][k][0]), atol=1e-13 * self.Lsc, rtol=1e-13, operand=name)
        rings = 2 + case['n'] % 3
        px, py = hexapolar(rings)
        rr = trace_pts(tw, hx, hy, px, py, w)
        x, y = rr['x'][k], rr['y'][k]
        if np.all(np.isfinite(x)):
            want = math.sqrt(float(np.mean((x - np.mean(x)) ** 2 + (y - np.mean(y)) ** 2)))
            out.close('rms_spot_size_operand', float(RO.rms_spot_size(o, k, hx, hy, rings, w)), want, rtol=1e-10,
                      atol=1e-13 * self.Lsc)
        # polychromatic: centroid on the primary wavelength
        xs, ys = [], []
        for ww in lens_w:
            t = trace_pts(tw, hx, hy, px, py, ww)
            xs.append(t['x'][k])
            ys.append(t['y'][k])
        pi = o.wavelengths.primary_index
        if all(np.all(np.isfinite(v)) for v in xs):
            mx, my = np.mean(xs[pi]), np.mean(ys[pi])
            r2 = np.concatenate([(a - mx) ** 2 + (b - my) ** 2 for a, b in zip(xs, ys)])
            out.close('rms_spot_size_operand_all', float(RO.rms_spot_size(o, k, hx, hy, rings, 'all')),
                      math.sqrt(float(np.mean(r2))), rtol=1e-10, atol=1e-13 * self.Lsc)
        # a non-default pupil distribution, single wavelength and 'all'
        from optiland.distribution import create_distribution
        dname = ['uniform', 'cross', 'ring', 'line_y'][case['n'] % 4]
        npts = 4 + case['n'] % 5
        dd = create_distribution(dname)
        dd.generate_points(npts)
        dx_, dy_ = np.array(dd.x, dtype=float), np.array(dd.y, dtype=float)
        if len(dx_) >= 2:
            xs, ys = [], []
            for ww in lens_w:
                t = trace_pts(tw, hx, hy, dx_, dy_, ww)
                xs.append(t['x'][k])
                ys.append(t['y'][k])
            if all(np.all(np.isfinite(v)) for v in xs):
                j = list(lens_w).index(w) if w in list(lens_w) else None
                if j is not None:
                    wantd = math.sqrt(float(np.mean((xs[j] - np.mean(xs[j])) ** 2 + (ys[j] - np.mean(ys[j])) ** 2)))
                    out.close('rms_spot_size_operand', float(RO.rms_spot_size(o, k, hx, hy, npts, w, dname)), wantd,
                              rtol=1e-10, atol=1e-13 * self.Lsc, distribution=dname)
                mx, my = np.mean(xs[pi]), np.mean(ys[pi])
                r2 = np.concatenate([(a - mx) ** 2 + (b - my) ** 2 for a, b in zip(xs, ys)])
                out.close('rms_spot_size_operand_all', float(RO.rms_spot_size(o, k, hx, hy, npts, 'all', dname)),
                          math.sqrt(float(np.mean(r2))), rtol=1e-10, atol=1e-13 * self.Lsc, distribution=dname)


CHECK = C12()
