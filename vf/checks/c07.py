"""C07 - results transform correctly under symmetries and re-descriptions of the lens (metamorphic)."""
import copy
import math

import numpy as np
from hypothesis import strategies as st

from vf.harness import Check
from vf.gen import lens as GL
from vf.gen.build import build
from vf.checks.c02 import ray_bundle

SYM = GL.Profile(max_surfs=7, shapes=['standard', 'standard', 'even_asphere'], keep_edges=True, rho_min=2.5,
                 steep_prob=0.0, allow_vignetting=True, allow_absorb=True, max_field_deg=12.0, zero_thickness=False)
FREE = GL.Profile(max_surfs=7, shapes=['standard', 'standard', 'even_asphere', 'polynomial', 'chebyshev'],
                  allow_tilt=True, keep_edges=True, rho_min=2.5, steep_prob=0.0, sym_coef_from=0, max_field_deg=12.0,
                  allow_apertures=True, zero_thickness=False)
IDEAL = GL.Profile(max_surfs=7, shapes=['standard', 'standard', 'even_asphere'], keep_edges=True, rho_min=2.0,
                   steep_prob=0.0, allow_glass=False, allow_tilt=True, max_field_deg=12.0)

f = st.floats
KEYS = ('x', 'y', 'z', 'L', 'M', 'N', 'opd', 'intensity')


def trace(o, rays, w, sx=1.0, sy=1.0, hx=None):
    Hy = np.array([r[0] for r in rays], dtype=float) * sy
    Px = np.array([r[1] for r in rays], dtype=float) * sx
    Py = np.array([r[2] for r in rays], dtype=float) * sy
    Hx = (np.array(hx, dtype=float) if hx is not None else np.zeros_like(Hy)) * sx
    o.trace_generic(Hx, Hy, Px, Py, w)
    sg = o.surface_group
    return {k: np.array(getattr(sg, k), dtype=float) for k in KEYS}


def scaled_spec(spec, s):
    t = copy.deepcopy(spec)
    if t['obj']['t'] != GL.INF:
        t['obj']['t'] = t['obj']['t'] * s
    for q in t['surfs']:
        if q['R'] != GL.INF:
            q['R'] = q['R'] * s
        q['t'] = q['t'] * s
        q['dx'] *= s
        q['dy'] *= s
        if q.get('hd'):
            q['hd'] *= s
        if q['type'] == 'even_asphere' and q['coef']:
            q['coef'] = [c * s ** (1 - 2 * (i + 1)) for i, c in enumerate(q['coef'])]
        elif q['type'] == 'polynomial' and q['coef']:
            q['coef'] = [[c * s ** (1 - i - j) for j, c in enumerate(row)] for i, row in enumerate(q['coef'])]
        elif q['type'] == 'chebyshev' and q['coef']:
            q['coef'] = [[c * s for c in row] for row in q['coef']]
            q['norm'] = q['norm'] * s
        if q['ap']:
            q['ap'] = dict(r_max=q['ap']['r_max'] * s, r_min=q['ap'].get('r_min', 0.0) * s)
    if t['ap']['type'] == 'EPD':
        t['ap']['value'] *= s
    if t['ftype'] == 'object_height':
        for fd in t['fields']:
            fd['y'] *= s
    return t


class C07(Check):
    pid = 'C07'
    title = 'Results transform correctly under symmetries and re-descriptions of the lens'
    rule = ('cases: generated lens x one transformation x generated ray bundle: (mirror) Px,Hx -> -Px,-Hx and/or Py,Hy -> '
            '-Py,-Hy on rotationally symmetric lenses; (tilt) tilt of a spherical surface by alpha in [-0.3,0.3] rad about x '
            'and/or y around its own centre of curvature; (dummy) plane surface inserted inside a gap between equal media; '
            '(wavelength) wavelength change on an all-ideal-media lens; (rescale) all lengths x s in [0.01,100] by '
            'rebuilding the prescription; (scale_system) the library\'s scale_system(s) against the rebuilt scaled lens '
            '(planes and conics, angular fields). Oracle: the stated relation between the two traces / first-order / Seidel '
            'results. Non-trivial: skew ray with non-zero Hx or Px (mirror); |alpha| >= 0.02; dummy followed by >=1 '
            'powered surface; s outside [0.5,2]. Distinct = distinct case hashes.')
    assumptions = ['record agreement at 1e-10 x length scale (the probe showed 4e-16 .. 2e-14)',
                   'tilt and dummy transformations are applied to gentle surfaces (|R| >= 2.5 beam heights) so that the '
                   'nearest-to-vertex intersection rule selects the same physical point in both descriptions',
                   'scale_system is compared on the profile it is documented to scale completely: planes and conics, '
                   'EPD / F-number / NA apertures, angular fields, radial apertures']

    def budget(self, tier):
        return (250, 8) if tier == 'quick' else (2500, 16)

    def strategy(self, tier):
        rb = ray_bundle()
        hx = st.lists(f(-1.0, 1.0), min_size=24, max_size=24)
        mirror = st.fixed_dictionaries(dict(kind=st.just('mirror'), spec=GL.lens_spec(SYM), rays=rb, hx=hx,
                                            which=st.sampled_from(['x', 'y', 'xy']), wl=st.integers(0, 3)))
        tilt = st.fixed_dictionaries(dict(kind=st.just('tilt'), spec=GL.lens_spec(FREE, min_surfs=2), rays=rb, s=st.integers(0, 99),
                                          ax=st.one_of(st.just(0.0), f(-0.3, 0.3)), ay=st.one_of(st.just(0.0), f(-0.3, 0.3)),
                                          wl=st.integers(0, 3)))
        dummy = st.fixed_dictionaries(dict(kind=st.just('dummy'), spec=GL.lens_spec(FREE, min_surfs=1), rays=rb, s=st.integers(0, 99),
                                           frac=f(0.25, 0.75), wl=st.integers(0, 3)))
        wave = st.fixed_dictionaries(dict(kind=st.just('wavelength'), spec=GL.lens_spec(IDEAL), rays=rb, w1=f(0.4, 0.9),
                                          w2=f(0.4, 0.9), via=st.sampled_from(['build', 'set_index'])))
        resc = st.fixed_dictionaries(dict(kind=st.just('rescale'), spec=GL.lens_spec(FREE), rays=rb,
                                          logs=f(-2.0, 2.0), wl=st.integers(0, 3)))
        ssys = st.fixed_dictionaries(dict(kind=st.just('scale_system'), spec=GL.lens_spec('scalable'), rays=rb,
                                          logs=f(-2.0, 2.0), wl=st.integers(0, 3)))
        return st.one_of(mirror, tilt, dummy, wave, resc, ssys)

    def describe(self, case):
        c = {k: v for k, v in case.items() if k not in ('spec', 'rays', 'hx')}
        c['nsurf'] = len(case['spec']['surfs'])
        c['types'] = [q['type'] for q in case['spec']['surfs']]
        c['rays'] = case['rays'][:3]
        return c

    def check(self, case, out):
        out.cls('kind_' + case['kind'])
        spec = case['spec']
        out.cls(*GL.spec_classes(spec))
        self.Lsc = max(1.0, sum(abs(s['t']) for s in spec['surfs']), 0.0 if spec['obj']['t'] == GL.INF else 0.0)
        # iterative surfaces stop at an *absolute* residual (1e-6 by default), which does not scale with the lens
        self.iter_tol = 1e-5 / self.Lsc if any(q['type'] != 'standard' for q in spec['surfs']) else 0.0
        ch = [i for i, q in enumerate(spec['surfs']) if q['type'] == 'chebyshev' and
              any(c for row in (q['coef'] or []) for c in row)]
        self.cheb_at = (ch[0] + 1) if ch else None
        self.nz = None
        # largest absorption coefficient 4 pi k / lambda (1/mm) among the media of this lens
        try:
            w_ = min(spec['wls'])
            kmax = max([GL.mat_k(q['mat'], w_, 0.0) or 0.0 for q in spec['surfs'] if q['mat']['kind'] not in ('mirror',)] + [0.0])
        except Exception:  # noqa
            kmax = 1e-4
        self.alpha = 4 * math.pi * kmax / (w_ * 1e-3) if spec['wls'] else 0.0
        try:
            return getattr(self, 'check_' + case['kind'])(case, out)
        except ValueError as e:
            if 'Chebyshev' in str(e):
                out.cls('cheb_domain_error')
                return
            raise

    def note(self, out, spec, rec, mult=1.0):
        """Known finding C07-parabola-cancellation (root cause of C05-/C02-parabola-cancellation): per ray, the loss of
        the conic root 1e-15/|c (L^2+M^2+(1+k)N^2)| at every near-parabolic surface of this trace, as an allowance for
        the relation that is judged next (positions: the displacement and its lever; directions: |c| times it)."""
        from vf.ref import trace as RT
        if not any(q['type'] == 'standard' and q['R'] != GL.INF and abs(1 + q['k']) < 0.05 for q in spec['surfs']):
            return
        if not out.kf_open('C07-parabola-cancellation'):
            return
        nr = rec['x'].shape[1]
        terr = np.zeros(nr)
        cmax = max([abs(1.0 / GL.fl(q['R'])) for q in spec['surfs'] if q['R'] != GL.INF] + [0.0])
        for k, (shape, frame, is_mirror, q) in enumerate(RT.surface_models(spec)[:-1], start=1):
            if shape.typ == 'standard' and shape.c != 0 and abs(1 + shape.k) < 0.05:
                D = np.array([rec['L'][k - 1], rec['M'][k - 1], rec['N'][k - 1]])
                Dl = frame.to_local_dir(D)
                with np.errstate(all='ignore'):
                    a_dir = np.abs(shape.c * (Dl[0] ** 2 + Dl[1] ** 2 + (1 + shape.k) * Dl[2] ** 2))
                    terr = terr + np.where((a_dir > 0) & (a_dir < 1e-4 * abs(shape.c)) & np.isfinite(a_dir), 1e-15 / a_dir, 0.0)
        if not np.any(terr > 0):
            return
        out.region('C07-parabola-cancellation')
        L = max(1.0, sum(abs(q['t']) for q in spec['surfs']))
        pos = 10 * terr * (1 + cmax * L) * mult
        dr = 10 * terr * cmax
        if self.nz is None or self.nz[0].shape != pos.shape:
            self.nz = (pos, dr)
        else:
            self.nz = (np.maximum(self.nz[0], pos), np.maximum(self.nz[1], dr))

    def same(self, out, clause, a, b, keys=KEYS, tol=1e-10, rows=None, scale=None, **kw):
        ok = True
        nz = self.nz
        self.nz = None
        for k in keys:
            if nz is not None and a[k].shape[-1] == nz[0].shape[0]:
                # (a displaced point also changes the absorbing path: dI <= alpha x displacement)
                extra = nz[0] if k in ('x', 'y', 'z', 'opd') else (nz[0] * self.alpha if k == 'intensity' else nz[1])
            else:
                extra = 0.0
            x, y = a[k], b[k]
            if rows is not None:
                x = x[rows[0]]
                y = y[rows[1]]
            sc = (scale or {}).get(k, self.Lsc if k in ('x', 'y', 'z', 'opd') else 1.0)
            if x.shape != y.shape:
                out.fail(clause, quantity=k, why='shape', a=list(x.shape), b=list(y.shape), **kw)
                return False
            # a ray that is non-finite in one description must be non-finite (inf or nan alike) in the other
            x = np.where(np.isfinite(x), x, np.nan)
            y = np.where(np.isfinite(y), y, np.nan)
            if np.ndim(extra):
                # per-ray allowance: compare against the tolerance ray by ray
                with np.errstate(all='ignore'):
                    bad = np.abs(x - y) > tol * sc + tol * np.abs(y) + extra
                    bad |= np.isnan(x) != np.isnan(y)
                ok &= out.expect(clause, not np.any(bad), quantity=k, weakened='C07-parabola-cancellation',
                                 max_err=float(np.nanmax(np.where(bad, np.abs(x - y), 0.0))) if np.any(bad) else 0.0, **kw)
            else:
                ok &= out.close(clause, x, y, atol=tol * sc, rtol=tol, quantity=k, **kw)
        return ok

    @staticmethod
    def from_first_surface(rec):
        """Records from surface 1 on, optical path counted from surface 1 (the launch plane of an infinite object is
        placed by convention, e.g. from the smallest vertex z, and is not part of the physical system)."""
        r = {k: v[1:].copy() for k, v in rec.items()}
        r['opd'] = r['opd'] - r['opd'][0]
        return r

    # ------------------------------------------------------------------
    def check_mirror(self, case, out):
        spec = case['spec']
        o = build(spec)
        w = spec['wls'][case['wl'] % len(spec['wls'])]
        rays = case['rays']
        hx = case['hx'][:len(rays)]
        a = trace(o, rays, w, hx=hx)
        sx = -1.0 if 'x' in case['which'] else 1.0
        sy = -1.0 if 'y' in case['which'] else 1.0
        b = trace(o, rays, w, sx=sx, sy=sy, hx=hx)
        want = dict(a)
        want['x'] = a['x'] * sx
        want['L'] = a['L'] * sx
        want['y'] = a['y'] * sy
        want['M'] = a['M'] * sy
        self.note(out, spec, a)
        self.note(out, spec, b)
        self.same(out, 'mirror_symmetry', b, want, which=case['which'])
        out.nt(any(r[1] != 0 for r in rays) or any(h != 0 for h in hx))

    def check_tilt(self, case, out):
        spec = case['spec']
        K = len(spec['surfs'])
        cand = [i for i in range(1, K) if spec['surfs'][i]['type'] == 'standard' and spec['surfs'][i]['R'] != GL.INF and
                spec['surfs'][i]['k'] == 0 and not (spec['surfs'][i]['rx'] or spec['surfs'][i]['ry'] or
                                                     spec['surfs'][i]['dx'] or spec['surfs'][i]['dy'])
                and not spec['surfs'][i]['ap']]
        if not cand:
            out.cls('no_spherical_surface')
            return
        i = cand[case['s'] % len(cand)]
        tw = copy.deepcopy(spec)
        R = tw['surfs'][i]['R']
        ax, ay = case['ax'], case['ay']
        # vertex after rotating the sphere about its centre C = V + (0,0,R):  V' = C + Rx(ax) Ry(ay) (0,0,-R)
        v = np.array([0.0, 0.0, -R])
        cy, sy_ = math.cos(ay), math.sin(ay)
        v = np.array([cy * v[0] + sy_ * v[2], v[1], -sy_ * v[0] + cy * v[2]])
        cx, sx_ = math.cos(ax), math.sin(ax)
        v = np.array([v[0], cx * v[1] - sx_ * v[2], sx_ * v[1] + cx * v[2]])
        d = v + np.array([0.0, 0.0, R])
        tw['surfs'][i]['dx'] = float(d[0])
        tw['surfs'][i]['dy'] = float(d[1])
        tw['surfs'][i]['rx'] = ax
        tw['surfs'][i]['ry'] = ay
        tw['surfs'][i - 1]['t'] += float(d[2])
        tw['surfs'][i]['t'] -= float(d[2])
        o, o2 = build(spec), build(tw)
        w = spec['wls'][case['wl'] % len(spec['wls'])]
        a = trace(o, case['rays'], w)
        # aim the same rays: pupil data must come from the same paraxial pupil -> trace identical launch
        b = trace(o2, case['rays'], w)
        # the launch may differ if the tilt changed the paraxial pupil (it does not: paraxial tracing ignores tilts,
        # but decentre enters the paraxial heights) - compare only when the launch records agree
        launch_same = all(np.array_equal(a[k][0], b[k][0], equal_nan=True) for k in ('x', 'y', 'z', 'L', 'M', 'N'))
        if not launch_same:
            out.cls('launch_changed_by_decentre')
            return
        self.note(out, spec, a)
        self.note(out, tw, b)
        self.same(out, 'tilt_about_centre_of_curvature', b, a, surface=i + 1, ax=ax, ay=ay)
        out.nt(max(abs(ax), abs(ay)) >= 0.02)

    def check_dummy(self, case, out):
        spec = case['spec']
        K = len(spec['surfs'])

        def loose(i):
            a_s = spec['surfs'][i]
            nxt = spec['surfs'][i + 1] if i + 1 < K else None
            h = a_s.get('hd') or 1.0
            sag_a = abs(GL._sag(a_s['R'], a_s['k'], min(1.5 * h, 0.8 * abs(GL.fl(a_s['R'])))) if a_s['R'] != GL.INF else 0.0)
            sag_b = 0.0
            if nxt is not None and nxt['R'] != GL.INF:
                sag_b = abs(GL._sag(nxt['R'], nxt['k'], min(1.5 * h, 0.8 * abs(GL.fl(nxt['R'])))))
            tilted = any(q['rx'] or q['ry'] for q in ([a_s] + ([nxt] if nxt else [])))
            non_std = a_s['type'] != 'standard' or (nxt is not None and nxt['type'] != 'standard')
            return not (abs(a_s['t']) < 4 * (sag_a + sag_b) + 1e-6 or tilted or non_std)
        # the object gap of a finite-conjugate lens is a gap like any other
        s1 = spec['surfs'][0]
        if spec['obj']['t'] != GL.INF and case['s'] % 3 == 0 and s1['type'] == 'standard' and \
                not (s1['rx'] or s1['ry'] or s1['dx'] or s1['dy']):
            h1 = s1.get('hd') or 1.0
            sag1 = abs(GL._sag(s1['R'], s1['k'], min(1.5 * h1, 0.8 * abs(GL.fl(s1['R']))))) if s1['R'] != GL.INF else 0.0
            t_obj = float(spec['obj']['t'])
            if t_obj * (1 - case['frac']) > 4 * sag1 + 1e-6:
                return self.dummy_in_object_gap(case, out, spec, t_obj)
        cand = [i for i in range(K) if loose(i)]
        if not cand:
            out.cls('gap_too_tight_for_dummy')
            return
        i = cand[case['s'] % len(cand)]
        a_s = spec['surfs'][i]
        gap = a_s['t']
        tw = copy.deepcopy(spec)
        t1 = gap * case['frac']
        tw['surfs'][i]['t'] = t1
        medium = dict(a_s['mat'])
        if medium['kind'] == 'mirror':
            # the medium behind a mirror is the medium in front of it
            j = i
            while j >= 0 and spec['surfs'][j]['mat']['kind'] == 'mirror':
                j -= 1
            medium = dict(spec['surfs'][j]['mat']) if j >= 0 else (
                dict(kind='ideal', n=spec['obj'].get('n', 1.0), k=0.0) if spec['obj'].get('n', 1.0) != 1.0 else dict(kind='air'))
        dummy = dict(type='standard', R=GL.INF, k=0.0, coef=None, norm=None, t=gap - t1, mat=medium, dx=0.0, dy=0.0,
                     rx=0.0, ry=0.0, ap=None, coat=None, stop=False)
        tw['surfs'].insert(i + 1, dummy)
        o, o2 = build(spec), build(tw)
        w = spec['wls'][case['wl'] % len(spec['wls'])]
        a = trace(o, case['rays'], w)
        # the relation holds for rays that cross the dummy's plane between the two surfaces; a ray that meets the next
        # surface before that plane (far outside the design aperture of a deeply curved surface) is a different ray path
        zp = sum(q['t'] for q in spec['surfs'][:i]) + t1
        za, zb, Na = a['z'][i + 1], a['z'][i + 2], a['N'][i + 1]
        with np.errstate(all='ignore'):
            crosses = ((zp - za) * np.sign(Na) >= 0) & ((zb - zp) * np.sign(Na) >= 0)
        crosses = crosses | ~np.isfinite(za) | ~np.isfinite(zb)
        rays = [r for r, c in zip(case['rays'], crosses) if c]
        if len(rays) < len(case['rays']):
            out.cls('ray_meets_next_surface_before_dummy_plane')
        if not rays:
            return
        a = trace(o, rays, w)
        b = trace(o2, rays, w)
        rows_a = list(range(K + 2))
        rows_b = [r for r in range(K + 3) if r != i + 2]
        self.note(out, spec, a)              # (on the full record: row k = surface k)
        if spec['obj']['t'] == GL.INF:
            a, b = self.from_first_surface(a), self.from_first_surface(b)
            rows_a = list(range(K + 1))
            rows_b = [r for r in range(K + 2) if r != i + 1]
        self.same(out, 'dummy_surface_changes_nothing', a, b, rows=(rows_a, rows_b), at=i + 1, frac=case['frac'])
        P, P2 = o.paraxial, o2.paraxial
        for nm in ('f2', 'F2', 'EPL', 'EPD'):
            x, y = float(np.ravel(getattr(P, nm)())[0]), float(np.ravel(getattr(P2, nm)())[0])
            if math.isfinite(x) and math.isfinite(y):
                out.close('dummy_surface_paraxial', y, x, rtol=1e-9, scale=max(abs(x), self.Lsc), which=nm)
        powered_after = any(q['R'] != GL.INF for q in spec['surfs'][i + 1:])
        out.nt(powered_after)

    def dummy_in_object_gap(self, case, out, spec, t_obj):
        K = len(spec['surfs'])
        n0 = spec['obj'].get('n', 1.0)
        tw = copy.deepcopy(spec)
        shift = t_obj * (1 - case['frac'])           # distance from the dummy plane to the old first surface
        tw['obj']['t'] = t_obj * case['frac']
        dummy = dict(type='standard', R=GL.INF, k=0.0, coef=None, norm=None, t=shift,
                     mat=(dict(kind='ideal', n=n0, k=0.0) if n0 != 1.0 else dict(kind='air')), dx=0.0, dy=0.0, rx=0.0, ry=0.0,
                     ap=None, coat=None, stop=False, hd=spec['surfs'][0].get('hd'))
        tw['surfs'].insert(0, dummy)
        o, o2 = build(spec), build(tw)
        w = spec['wls'][case['wl'] % len(spec['wls'])]
        a = trace(o, case['rays'], w)
        # rays that reach the first surface beyond the dummy plane only (see the other gaps)
        with np.errstate(all='ignore'):
            ok = (a['z'][1] >= -shift) | ~np.isfinite(a['z'][1])
        rays = [r for r, c in zip(case['rays'], ok) if c]
        if not rays:
            return
        a = trace(o, rays, w)
        b = trace(o2, rays, w)
        b = dict(b)
        b['z'] = b['z'] - shift                      # the origin of z is the first surface, now the dummy
        rows_a = list(range(K + 2))
        rows_b = [0] + list(range(2, K + 3))
        out.cls('dummy_in_object_gap')
        self.note(out, spec, a)
        # the first surface is met from the distance D in one description and from D/2 in the other: the root of the conic
        # quadratic a t^2 + b t + c with b^2 ~ 4 a c ~ (a D)^2 carries eps a D^2 (a = |c| max(1, |1+k|))
        amax = max([abs(1.0 / GL.fl(q['R'])) * max(1.0, abs(1.0 + q.get('k', 0.0))) for q in spec['surfs'][:1]
                    if q['R'] != GL.INF] + [0.0])
        sc = max(self.Lsc, 1e-5 * amax * float(t_obj) ** 2)
        self.same(out, 'dummy_surface_changes_nothing', a, b, rows=(rows_a, rows_b), at=0, frac=case['frac'],
                  scale=dict(x=sc, y=sc, z=sc, opd=sc))
        out.nt(any(r[0] != 0 for r in rays))

    def check_wavelength(self, case, out):
        spec = copy.deepcopy(case['spec'])
        spec['wls'] = [round(case['w1'], 6)]
        spec['prim'] = 0
        if case.get('via') == 'set_index':
            # a lens of dispersive catalogue glasses made dispersion-free afterwards, medium by medium, with set_index()
            out.cls('made_dispersion_free_with_set_index')
            d = copy.deepcopy(spec)
            g = GL.glasses()[case['w1'] > 0.6]
            for q in d['surfs']:
                if q['mat']['kind'] == 'ideal':
                    q['mat'] = dict(g)
            o = build(d)
            cur = None                      # index of the ideal medium the light is in (None: air / object space)
            for k, q in enumerate(spec['surfs'], start=1):
                if q['mat']['kind'] == 'ideal':
                    cur = q['mat']['n']
                    o.set_index(cur, k)
                elif q['mat']['kind'] == 'mirror':
                    if cur is not None:
                        o.set_index(cur, k)         # the medium behind a mirror is the medium in front of it
                else:
                    cur = None
        else:
            o = build(spec)
        a = trace(o, case['rays'], spec['wls'][0])
        b = trace(o, case['rays'], round(case['w2'], 6))
        self.note(out, spec, a)
        self.note(out, spec, b)
        self.same(out, 'dispersion_free_lens_is_achromatic', b, a, keys=('x', 'y', 'z', 'L', 'M', 'N', 'opd'), tol=1e-13)
        out.nt(abs(case['w1'] - case['w2']) > 0.05 and any(q['mat']['kind'] == 'ideal' for q in spec['surfs']))

    def rescale_relations(self, out, clause, a, b, s, **kw):
        sc = dict(x=self.Lsc * max(1.0, s), y=self.Lsc * max(1.0, s), z=self.Lsc * max(1.0, s), opd=self.Lsc * max(1.0, s))
        want = dict(a)
        for k in ('x', 'y', 'z', 'opd'):
            want[k] = a[k] * s
        # the object-side launch record of an infinite object is placed by convention, not by the lens: skip row 0
        n = a['x'].shape[0]
        last = n
        if self.cheb_at is not None and out.kf_open('C07-chebyshev-normal'):
            # weakened relation: everything in front of the first Chebyshev surface still scales
            out.region('C07-chebyshev-normal')
            last = self.cheb_at
        rows = (list(range(1, last)), list(range(1, last)))
        if last <= 1:
            return True
        return self.same(out, clause, b, want, keys=('x', 'y', 'z', 'L', 'M', 'N', 'opd'), rows=rows, scale=sc,
                         tol=max(1e-9, self.iter_tol * max(1.0, s, 1.0 / s)), **kw)

    def check_rescale(self, case, out):
        spec = case['spec']
        s = 10.0 ** case['logs']
        if any(q['dx'] or q['dy'] for q in spec['surfs']):
            # the paraxial tracer adds decentres to heights measured from an unscaled unit launch height, so pupil data
            # (hence ray aiming) of decentred lenses are not scale covariant; the relation is claimed for the others
            out.cls('decentred_not_claimed')
            return
        tw = scaled_spec(spec, s)
        o, o2 = build(spec), build(tw)
        w = spec['wls'][case['wl'] % len(spec['wls'])]
        a = trace(o, case['rays'], w)
        b = trace(o2, case['rays'], w)
        self.note(out, spec, a, mult=s)
        self.note(out, tw, b)
        self.rescale_relations(out, 'lengths_scale_with_the_prescription', a, b, s, factor=s)
        P, P2 = o.paraxial, o2.paraxial
        for nm in ('f2', 'F2', 'EPL', 'XPL'):
            x, y = float(np.ravel(getattr(P, nm)())[0]), float(np.ravel(getattr(P2, nm)())[0])
            if math.isfinite(x) and math.isfinite(y) and abs(x) < 1e9 * self.Lsc:
                out.close('focal_lengths_scale', y, x * s, rtol=1e-8, scale=max(abs(x * s), self.Lsc * s), which=nm)
        centred = not any(q['rx'] or q['ry'] or q['dx'] or q['dy'] for q in spec['surfs'])
        if centred and GL.max_field(spec) > 0 and all(q['type'] == 'standard' for q in spec['surfs']):
            try:
                S1 = np.ravel(np.asarray(o.aberrations.seidels(), dtype=float))
                S2 = np.ravel(np.asarray(o2.aberrations.seidels(), dtype=float))
                if np.all(np.isfinite(S1)) and np.all(np.isfinite(S2)):
                    out.close('seidel_sums_scale', S2, S1 * s, rtol=1e-7, scale=np.max(np.abs(S1 * s)) + 1e-300)
            except ZeroDivisionError:
                pass
        out.nt(s < 0.5 or s > 2.0)

    def check_scale_system(self, case, out):
        import json
        spec = case['spec']
        s = 10.0 ** case['logs']
        tw = scaled_spec(spec, s)
        o = build(spec)
        o.scale_system(s)
        o2 = build(tw)
        d1, d2 = o.to_dict(), o2.to_dict()
        Lsc = max(1.0, sum(abs(q['t']) for q in spec['surfs']))
        diff = dict_close(d1, d2, 1e-12, pos_atol=1e-13 * Lsc * s)
        out.expect('scale_system_produces_the_scaled_prescription', diff is None, diff=diff, s=s)
        w = spec['wls'][case['wl'] % len(spec['wls'])]
        a = trace(o, case['rays'], w)
        b = trace(o2, case['rays'], w)
        n = a['x'].shape[0]
        rows = (list(range(1, n)), list(range(1, n)))
        Lc = self.Lsc
        if spec['obj']['t'] != GL.INF:
            # a finite object far away: the first conic root is found from the distance D and carries eps a D^2
            # (a = |c| max(1, |1+k|)); a steep exit (direction cosine N) amplifies it by 1/N^2 at the next surface
            amax = max([abs(1.0 / GL.fl(q['R'])) * max(1.0, abs(1.0 + q.get('k', 0.0))) for q in spec['surfs'][:1]
                        if q['R'] != GL.INF] + [0.0])
            with np.errstate(all='ignore'):
                Nmin = np.nanmin(np.abs(np.where(np.isfinite(a['N'][1:]), a['N'][1:], np.nan))) if a['N'][1:].size else 1.0
            amp = min(1e3, 1.0 / max(float(Nmin) ** 2, 1e-3)) if np.isfinite(Nmin) else 1.0
            Lc = max(Lc, 1e-5 * amax * float(GL.fl(spec['obj']['t'])) ** 2 * amp)
        sc = {k: Lc * max(1.0, s) for k in ('x', 'y', 'z', 'opd')}
        self.note(out, tw, a)
        self.note(out, tw, b)
        nz_v = self.nz                   # (the parabola-noise allowance, also needed by the intensity clause below)
        self.same(out, 'scale_system_traces_like_the_scaled_lens', a, b, keys=('x', 'y', 'z', 'L', 'M', 'N', 'opd'),
                  rows=rows, scale=sc, tol=1e-9, s=s)
        # intensities too (apertures are scaled with the lens): judged for rays that do not graze an aperture edge
        tilted = any(q['rx'] or q['ry'] for q in spec['surfs'])
        if not tilted:
            graze = np.zeros(a['x'].shape[1], dtype=bool)
            for i, q in enumerate(tw['surfs']):
                if q.get('ap'):
                    with np.errstate(all='ignore'):
                        r = np.hypot(b['x'][i + 1] - q['dx'], b['y'][i + 1] - q['dy'])
                        for edge in (q['ap']['r_max'], q['ap'].get('r_min', 0.0)):
                            if edge:
                                graze |= np.abs(r - edge) <= 1e-9 * max(edge, q['ap']['r_max'])
                    graze |= ~np.isfinite(r)
            ia = np.where(np.isfinite(a['intensity']), a['intensity'], np.nan)[1:, ~graze]
            ib = np.where(np.isfinite(b['intensity']), b['intensity'], np.nan)[1:, ~graze]
            if nz_v is not None and nz_v[0].shape[0] == a['x'].shape[1]:
                # known finding C07-parabola-cancellation: a displaced intersection point changes the absorbing path
                extra = (nz_v[0] * self.alpha)[~graze][None, :]
                with np.errstate(all='ignore'):
                    bad = np.abs(ia - ib) > 1e-12 + 1e-9 * np.abs(ib) + extra
                    bad |= np.isnan(ia) != np.isnan(ib)
                out.expect('scale_system_keeps_the_vignetting', not np.any(bad), s=s, weakened='C07-parabola-cancellation',
                           max_err=float(np.nanmax(np.where(bad, np.abs(ia - ib), 0.0))) if np.any(bad) else 0.0)
            else:
                out.close('scale_system_keeps_the_vignetting', ia, ib, atol=1e-12, rtol=1e-9, s=s)
        out.nt(s < 0.5 or s > 2.0)


def dict_close(a, b, rtol, path='', pos_atol=0.0):
    """pos_atol: absolute allowance for vertex positions (.../cs/x|y|z), which are sums of thicknesses and can be
    tiny residues of large cancelling terms"""
    if isinstance(a, dict) and isinstance(b, dict):
        if set(a) != set(b):
            return path + ' keys differ'
        for k in a:
            r = dict_close(a[k], b[k], rtol, path + '/' + str(k), pos_atol)
            if r:
                return r
        return None
    if isinstance(a, (list, tuple)) and isinstance(b, (list, tuple)):
        if len(a) != len(b):
            return path + ' length'
        for i, (x, y) in enumerate(zip(a, b)):
            r = dict_close(x, y, rtol, path + '/%d' % i, pos_atol)
            if r:
                return r
        return None
    if isinstance(a, (int, float, np.floating, np.integer)) and isinstance(b, (int, float, np.floating, np.integer)) \
            and not isinstance(a, bool) and not isinstance(b, bool):
        a, b = float(a), float(b)
        if a == b or (math.isnan(a) and math.isnan(b)):
            return None
        if math.isfinite(a) and math.isfinite(b) and abs(a - b) <= rtol * max(abs(a), abs(b)) + 1e-300:
            return None
        if pos_atol and path[-5:] in ('/cs/x', '/cs/y', '/cs/z') and abs(a - b) <= pos_atol:
            return None
        return path + ' %r != %r' % (a, b)
    if isinstance(a, np.ndarray) or isinstance(b, np.ndarray):
        return dict_close(np.asarray(a).tolist(), np.asarray(b).tolist(), rtol, path, pos_atol)
    return None if a == b else path + ' %r != %r' % (a, b)


CHECK = C07()
