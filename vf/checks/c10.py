"""C10 - Zernike families are correctly indexed, normalised, and recovered by fitting."""
import math

import numpy as np
from hypothesis import strategies as st

from vf.harness import Check
from vf.gen.util import weighted
from vf.gen import lens as GL
from vf.gen.build import build
from vf.ref import zernike as RZ

FAMILIES = ['standard', 'noll', 'fringe']
f = st.floats


def family_cls(name):
    from optiland import zernike as Z
    return {'standard': Z.ZernikeStandard, 'noll': Z.ZernikeNoll, 'fringe': Z.ZernikeFringe}[name]


def points(kind, n, jit, seed_vals):
    """>= n well-spread points in the unit disk, deterministic from the generated numbers."""
    if kind == 'hexapolar':
        rings = max(3, int(math.ceil((math.sqrt(max(n, 7) / 3.0)))) + 1)
        xs, ys = [0.0], [0.0]
        for i in range(1, rings + 1):
            k = 6 * i
            for j in range(k):
                t = 2 * math.pi * j / k + jit * 0.3
                xs.append(i / rings * math.cos(t))
                ys.append(i / rings * math.sin(t))
        return np.array(xs), np.array(ys)
    if kind == 'grid':
        m = max(8, int(math.ceil(math.sqrt(n * 1.6))) + 2)
        g = np.linspace(-1, 1, m)
        X, Y = np.meshgrid(g, g)
        X = X + jit * 0.3 / m * np.sin(7 * Y + 1)
        Y = Y + jit * 0.3 / m * np.cos(5 * X + 2)
        keep = X ** 2 + Y ** 2 <= 1.0
        return X[keep], Y[keep]
    # sunflower spiral with generated rotation
    k = np.arange(1, max(3 * n, 40) + 1)
    r = np.sqrt((k - 0.5) / len(k))
    t = k * 2.399963229728653 + jit * 6.0
    return r * np.cos(t), r * np.sin(t)


# lenses for the decomposition clause: the imaging profile plus physical apertures (pupil samples may be clipped: their OPD
# is still part of the sampled wavefront that the decomposition has to reproduce)
LENS = GL.Profile(max_surfs=6, shapes=['standard', 'standard', 'even_asphere'], allow_mirror=False, keep_edges=True,
                  rho_min=3.0, steep_prob=0.0, ap_types=['EPD', 'imageFNO'], max_field_deg=8.0, allow_vignetting=False,
                  max_n=2.0, zero_thickness=False, positive_power=True, negative_fields=True, allow_apertures=True)


class C10(Check):
    pid = 'C10'
    title = 'Zernike families are correctly indexed, normalised, and recovered by fitting'
    rule = ('cases: (index) all 120 indices of the three families against the published rules - enumerated exhaustively; '
            '(edge) unit radial value at the pupil edge for every index; (gram) orthonormality of Standard and Noll / '
            'orthogonality of Fringe by exact quadrature; (fit) generated coefficient vectors (N in [1,37], magnitudes '
            '1e-3..1e2, sparse and dense) sampled on generated point sets (>= 3N well-spread points): poly linear in the '
            'coefficients, ZernikeFit recovers them, fitting is linear in the data; (lens) ZernikeOPD of generated '
            'imaging lenses reproduces the sampled OPD up to the least-squares truncation residual of an independent '
            'lstsq fit on my own basis. Non-trivial: N >= 11 with a non-zero coefficient beyond term 10 (fit), or an '
            'exhaustive table. Distinct = distinct case hashes.')
    assumptions = ['sign of the sine terms (m<0) is not fixed by the property: each basis function is compared up to one '
                   'global sign per term',
                   'fit tolerance 1e-6 x (1 + cond(basis)) x max|c| (scipy least_squares default tolerances)']
    exhaustive = True

    def budget(self, tier):
        return (80, 8) if tier == 'quick' else (600, 16)

    def fixed_cases(self, tier):
        cases = [dict(kind='index', family=fam) for fam in FAMILIES]
        cases += [dict(kind='edge', family=fam) for fam in FAMILIES]
        cases += [dict(kind='gram', family=fam, N=36 if tier == 'quick' else 120) for fam in FAMILIES]
        return cases

    def strategy(self, tier):
        coeff = st.one_of(st.just(0.0), f(-1.0, 1.0), f(-100.0, 100.0), f(-1e-3, 1e-3))
        fit = st.fixed_dictionaries(dict(kind=st.just('fit'), family=st.sampled_from(FAMILIES),
                                         c1=st.one_of(st.lists(coeff, min_size=1, max_size=37),
                                                      st.lists(coeff, min_size=1, max_size=37),
                                                      st.lists(coeff, min_size=37, max_size=56)),
                                         c2=st.lists(coeff, min_size=1, max_size=37),
                                         a=f(-3.0, 3.0), b=f(-3.0, 3.0),
                                         pts=st.sampled_from(['hexapolar', 'grid', 'spiral']), jit=f(0.0, 1.0)))
        lens = st.fixed_dictionaries(dict(kind=st.just('lens'), family=st.sampled_from(FAMILIES),
                                          spec=GL.lens_spec(LENS, min_surfs=2), N=st.integers(4, 37),
                                          rings=st.integers(3, 6), fld=st.integers(0, 3)))
        return weighted((3, fit), (1, lens))

    def describe(self, case):
        if case['kind'] == 'lens':
            c = dict(case)
            c['spec'] = dict(nsurf=len(case['spec']['surfs']), ap=case['spec']['ap'])
            return c
        return case

    # ------------------------------------------------------------------
    def check(self, case, out):
        k = case['kind']
        out.cls('kind_' + k, 'family_' + case['family'])
        return getattr(self, 'check_' + k)(case, out)

    def check_index(self, case, out):
        fam = case['family']
        z = family_cls(fam)()
        got = [(int(n), int(m)) for n, m in z.indices]
        want = RZ.INDEX_RULES[fam](120)
        out.expect('index_table', got[:120] == want, family=fam,
                   first_diff=next((i for i, (a, b) in enumerate(zip(got, want)) if a != b), None))
        out.expect('index_no_repetition', len(set(got[:120])) == 120, family=fam)
        out.expect('index_count', len(got) >= 120, got=len(got))
        out.expect('more_than_120_rejected', self.raises(lambda: family_cls(fam)([0.0] * 121)), family=fam)
        out.nt(True)

    @staticmethod
    def raises(fn):
        try:
            fn()
        except ValueError:
            return True
        return False

    def check_edge(self, case, out):
        fam = case['family']
        z = family_cls(fam)()
        for (n, m) in RZ.INDEX_RULES[fam](120):
            phi = 0.0 if m >= 0 else math.pi / (2 * abs(m))
            v = float(z.get_term(1.0, n, m, 1.0, phi))
            out.close('unit_radial_value_at_edge', abs(v) / RZ.norm(fam, n, m), 1.0, rtol=1e-9, n=n, m=m, family=fam)
            # radial polynomial away from the edge, against the independent R_n^m
            for r in (0.3, 0.77):
                v = float(z.get_term(1.0, n, m, r, phi))
                want = RZ.norm(fam, n, m) * float(RZ.radial(n, m, r))
                out.close('radial_polynomial', abs(v), abs(want), rtol=1e-9, atol=1e-12, n=n, m=m, r=r, family=fam)
        out.nt(True)

    def check_gram(self, case, out):
        fam, N = case['family'], case['N']
        z = family_cls(fam)()
        idx = RZ.INDEX_RULES[fam](N)
        nmax = max(n for n, m in idx)
        # exact quadrature: Gauss-Legendre in r (weight r) x trapezoid in phi
        nr = nmax + 2
        x, w = np.polynomial.legendre.leggauss(nr)
        r = 0.5 * (x + 1)
        wr = 0.5 * w * r
        nphi = 2 * nmax + 3
        phi = 2 * math.pi * np.arange(nphi) / nphi
        R, P = np.meshgrid(r, phi, indexing='ij')
        W = (wr[:, None] * np.ones(nphi)[None, :]) * (2 * math.pi / nphi) / math.pi    # dA / pi
        B = np.array([np.asarray(z.get_term(1.0, n, m, R, P), dtype=float).ravel() for (n, m) in idx])
        G = (B * W.ravel()[None, :]) @ B.T
        if fam == 'fringe':
            D = np.diag(np.diag(G))
            out.close('orthogonal', G - D, np.zeros_like(G), atol=1e-10, family=fam)
            # diagonal: 1/(n+1) for m=0, 1/(2n+2) otherwise
            want = np.array([1.0 / (n + 1) if m == 0 else 1.0 / (2 * n + 2) for n, m in idx])
            out.close('fringe_norms', np.diag(G), want, rtol=1e-9, family=fam)
        else:
            out.close('orthonormal', G, np.eye(N), atol=1e-9, family=fam, N=N)
        out.nt(True)

    def check_fit(self, case, out):
        from optiland.zernike import ZernikeFit
        fam = case['family']
        cls = family_cls(fam)
        c1 = np.array(case['c1'], dtype=float)
        N = len(c1)
        c2 = np.resize(np.array(case['c2'], dtype=float), N)
        a, b = case['a'], case['b']
        x, y = points(case['pts'], 3 * N, case['jit'], None)
        out.cls('pts_' + case['pts'])
        r, phi = np.hypot(x, y), np.arctan2(y, x)
        idx = RZ.INDEX_RULES[fam](N)
        # library evaluation vs my basis (up to the sign of sine terms)
        z1 = np.asarray(cls(list(c1)).poly(r, phi), dtype=float)
        z2 = np.asarray(cls(list(c2)).poly(r, phi), dtype=float)
        z3 = np.asarray(cls(list(a * c1 + b * c2)).poly(r, phi), dtype=float)
        sc = max(1e-30, np.max(np.abs(c1)), np.max(np.abs(c2))) * N
        out.close('poly_linear_in_coefficients', z3, a * z1 + b * z2, atol=1e-10 * sc * (abs(a) + abs(b) + 1))
        # history on one object: the caller's coordinate buffers are reused and changed in place between calls, and
        # the coefficients are replaced; each evaluation depends only on its arguments and the current coefficients
        zobj = cls(list(c1))
        rb, pb = r.copy(), phi.copy()
        v1 = np.asarray(zobj.poly(rb, pb), dtype=float)
        out.close('evaluation_depends_only_on_arguments', v1, z1, atol=1e-13 * sc, step='first')
        rb *= 0.5
        pb += 0.3
        v2 = np.asarray(zobj.poly(rb, pb), dtype=float)
        out.close('evaluation_depends_only_on_arguments', v2, np.asarray(cls(list(c1)).poly(rb.copy(), pb.copy()), dtype=float),
                  atol=1e-13 * sc, step='buffers changed in place')
        zobj.coeffs = list(c2)
        v3 = np.asarray(zobj.poly(r, phi), dtype=float)
        out.close('evaluation_depends_only_on_arguments', v3, z2, atol=1e-13 * sc, step='coefficients replaced')
        if N >= 2:
            # coefficients replaced by a longer vector than the object was constructed with (what ZernikeFit does)
            zshort = cls(list(c1[:max(1, N // 2)]))
            zshort.coeffs = list(c1)
            v4 = np.asarray(zshort.poly(r, phi), dtype=float)
            out.close('evaluation_depends_only_on_arguments', v4, z1, atol=1e-13 * sc, step='longer coefficient vector')
        if N > 36:
            out.cls('more_than_36_terms')
        B = np.array([RZ.basis(fam, n, m, r, phi) for n, m in idx]).T            # (pts, N)
        Bs = np.array([RZ.basis(fam, n, m, r, phi, -1.0) for n, m in idx]).T
        # per-term agreement with the library's single-term evaluation, up to sign
        for j, (n, m) in enumerate(idx):
            e = np.zeros(N)
            e[j] = 1.0
            lib = np.asarray(cls(list(e)).poly(r, phi), dtype=float)
            ok = np.allclose(lib, B[:, j], atol=1e-9, rtol=1e-9) or np.allclose(lib, Bs[:, j], atol=1e-9, rtol=1e-9)
            out.expect('term_equals_published_polynomial', ok, n=n, m=m, family=fam)
            if not ok:
                return
        cond = np.linalg.cond(B)
        if not np.isfinite(cond) or cond > 1e4 or len(x) < N:
            out.cls('ill_conditioned_sample')
            return
        tol = 1e-6 * (1 + cond) * max(np.max(np.abs(c1)), 1e-3)
        fit = ZernikeFit(x, y, z1, fam, N)
        got = np.asarray(fit.coeffs, dtype=float)
        out.close('fit_recovers_coefficients', got, c1, atol=tol, family=fam, N=N, cond=cond)
        # linear in the data
        fit2 = ZernikeFit(x, y, z2, fam, N)
        fit3 = ZernikeFit(x, y, a * z1 + b * z2, fam, N)
        tol3 = 1e-6 * (1 + cond) * max(np.max(np.abs(a * c1 + b * c2)), np.max(np.abs(c1)), np.max(np.abs(c2)), 1e-3) * \
            (abs(a) + abs(b) + 1)
        out.close('fit_linear_in_data', np.asarray(fit3.coeffs, dtype=float),
                  a * got + b * np.asarray(fit2.coeffs, dtype=float), atol=tol3, family=fam, N=N)
        out.nt(N >= 11 and np.any(c1[10:] != 0))

    def check_lens(self, case, out):
        from optiland.wavefront import ZernikeOPD
        spec = case['spec']
        o = build(spec)
        fam, N = case['family'], case['N']
        flds = o.fields.get_field_coords()
        fld = flds[case['fld'] % len(flds)]
        w = o.primary_wavelength
        try:
            zo = ZernikeOPD(o, fld, w, num_rings=case['rings'], zernike_type=fam, num_terms=N)
        except ValueError as e:
            if 'Residuals are not finite' in str(e) or 'Chief ray' in str(e):
                out.cls('opd_not_finite')
                return
            raise
        x, y = np.asarray(zo.distribution.x), np.asarray(zo.distribution.y)
        z = np.asarray(zo.data[0][0][0], dtype=float)
        if np.any(np.asarray(zo.data[0][0][1], dtype=float) == 0):
            out.cls('clipped_pupil_samples')
        if not np.all(np.isfinite(z)) or len(x) < N + 3:
            out.cls('opd_not_finite')
            return
        r, phi = np.hypot(x, y), np.arctan2(y, x)
        idx = RZ.INDEX_RULES[fam](N)
        B = np.array([RZ.basis(fam, n, m, r, phi) for n, m in idx]).T
        coef, res, rank, sv = np.linalg.lstsq(B, z, rcond=None)
        best = z - B @ coef
        rms_best = math.sqrt(float(np.mean(best ** 2)))
        model = np.asarray(zo.zernike.poly(r, phi), dtype=float)
        rms_lib = math.sqrt(float(np.mean((model - z) ** 2)))
        zsc = max(np.max(np.abs(z)), 1e-6)
        cond = sv[0] / sv[-1] if sv[-1] > 0 else np.inf
        if cond > 1e6:
            out.cls('ill_conditioned_sample')
            return
        out.close('decomposition_residual_is_truncation_residual', rms_lib, rms_best, atol=1e-6 * zsc * (1 + cond),
                  family=fam, N=N, points=len(x))
        out.nt(N >= 11 and zsc > 1e-3)


CHECK = C10()
