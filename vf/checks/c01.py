"""C01 - lens prescription stays consistent under any history of edits (model-based, history generated as data)."""
import math

import numpy as np
from hypothesis import strategies as st

from vf.harness import Check
from vf.gen.util import weighted
from vf.gen import lens as GL
from vf.gen.build import build
from vf.gen import samples as GS
from vf.ref.model import Model, observe, compare

EDIT = GL.Profile(max_surfs=12, shapes=['standard', 'standard', 'even_asphere', 'polynomial', 'chebyshev'],
                  allow_tilt=True, keep_edges=False, sym_coef_from=0, max_field_deg=10.0, rho_min=1.5, steep_prob=0.1,
                  ap_types=['EPD', 'EPD', 'EPD', 'imageFNO', 'objectNA'])

# histories centred on solves: EPD aperture, no tilts/decentres (the domain in which the solve clause is judged)
SOLVE = GL.Profile(max_surfs=8, shapes=['standard', 'standard', 'even_asphere'], allow_tilt=False, keep_edges=False,
                   sym_coef_from=0, max_field_deg=10.0, rho_min=1.5, steep_prob=0.0, ap_types=['EPD'])

f = st.floats
sel = st.integers(0, 1000)
val_R = st.one_of(f(5.0, 500.0), f(-500.0, -5.0))
val_k = f(-3.0, 2.0)
val_t = f(0.0, 60.0)
val_n = f(1.2, 2.5)


def op_strategy():
    ops = [
        st.fixed_dictionaries(dict(op=st.just('set_radius'), s=sel, v=val_R)),
        st.fixed_dictionaries(dict(op=st.just('set_conic'), s=sel, v=val_k)),
        st.fixed_dictionaries(dict(op=st.just('set_thickness'), s=sel, v=val_t)),
        st.fixed_dictionaries(dict(op=st.just('set_index'), s=sel, v=val_n)),
        st.fixed_dictionaries(dict(op=st.just('set_asphere_coeff'), s=sel, i=sel, v=f(-1e-4, 1e-4))),
        st.fixed_dictionaries(dict(op=st.just('variable'), vtype=st.sampled_from(
            ['radius', 'conic', 'thickness', 'index', 'asphere_coeff', 'tilt', 'decenter', 'polynomial_coeff',
             'chebyshev_coeff']), s=sel, i=sel, j=sel, axis=st.sampled_from(['x', 'y']), scaled=st.booleans(),
            u=f(0.0, 1.0))),
        st.fixed_dictionaries(dict(op=st.just('pickup'), attr=st.sampled_from(['radius', 'conic', 'thickness']),
                                   src=sel, tgt=sel, scale=st.sampled_from([1.0, -1.0, 0.5, 2.0]),
                                   offset=st.sampled_from([0.0, 0.0, 1.5, -2.0]))),
        st.fixed_dictionaries(dict(op=st.just('solve'), s=sel, h=f(-3.0, 3.0))),
        st.fixed_dictionaries(dict(op=st.just('update'))),
        st.fixed_dictionaries(dict(op=st.just('image_solve'))),
        st.fixed_dictionaries(dict(op=st.just('add_wavelength'), v=f(0.45, 0.70), prim=st.booleans(),
                                   unit=st.sampled_from(['um', 'nm', 'mm']))),
    ]
    solve = ops[7]
    upd = ops[8]
    pick = ops[6]
    return st.lists(weighted(*([(1, x) for x in ops] + [(2, solve), (2, upd), (1, pick)])), min_size=4, max_size=30)


def solve_history():
    """two or three solves first, then edits (often in front of them) and update() calls"""
    solve = st.fixed_dictionaries(dict(op=st.just('solve'), s=sel, h=f(-3.0, 3.0)))
    upd = st.fixed_dictionaries(dict(op=st.just('update')))
    edit = st.one_of(
        st.fixed_dictionaries(dict(op=st.just('set_radius'), s=st.integers(0, 2), v=val_R)),
        st.fixed_dictionaries(dict(op=st.just('set_index'), s=st.integers(0, 2), v=val_n)),
        st.fixed_dictionaries(dict(op=st.just('set_thickness'), s=st.integers(0, 1), v=f(0.5, 20.0))),
        st.fixed_dictionaries(dict(op=st.just('set_radius'), s=sel, v=val_R)),
        st.fixed_dictionaries(dict(op=st.just('set_conic'), s=sel, v=val_k)))
    # a radius pickup whose target lies in front of the solved surfaces (small selectors): pickups and solves then
    # interact in update()
    pick = st.fixed_dictionaries(dict(op=st.just('pickup'), attr=st.just('radius'), src=st.integers(0, 3), tgt=st.integers(0, 3),
                                      scale=st.sampled_from([1.0, -1.0, 0.5]), offset=st.sampled_from([0.0, 1.5])))
    return st.tuples(st.lists(solve, min_size=2, max_size=3),
                     st.lists(weighted((3, edit), (1, upd), (1, solve), (2, pick)), min_size=1, max_size=8)
                     ).map(lambda t: t[0] + t[1] + [dict(op='update')])


def stop_ops():
    return st.lists(st.one_of(
        st.fixed_dictionaries(dict(op=st.just('insert'), s=sel, stop=st.booleans(),
                                   form=st.sampled_from(['keywords', 'keywords', 'object']))),
        st.fixed_dictionaries(dict(op=st.just('remove'), s=sel)),
        st.fixed_dictionaries(dict(op=st.just('add_wavelength'), v=f(0.45, 0.70), prim=st.booleans(),
                                   unit=st.just('um')))), min_size=1, max_size=10)


class C01(Check):
    pid = 'C01'
    title = 'Lens prescription stays consistent under any history of edits'
    rule = ('cases: (edit) a generated prescription (1-12 surfaces appended in index order: all six shapes, tilts/decentres, '
            'mirrors, ideal+catalogue media, finite/infinite object) followed by a generated history of 1-30 operations '
            'from {set_radius, set_conic, set_thickness, set_index, set_asphere_coeff, Variable(9 types, scaled/unscaled)'
            '.update, pickups.add, solves.add, update, image_solve, add_wavelength}; after every step the library state '
            '(observed through public attributes) must equal a dictionary model updated with the documented semantics '
            '(frame condition: everything else unchanged). (stop) histories of insertions / removals / add_wavelength '
            'checked for the stop and primary clauses only. Non-trivial: >=3 edits of >=2 kinds and (an interior thickness '
            'edit or an update() with >=1 pickup/solve). Distinct = distinct (spec, history) hashes.')
    assumptions = ['pickup sets are well founded (a finite-object solve only behind the stop): targets distinct, a target is never a source or a solve-governed gap, '
                   'finite non-zero source radii; solves are added in increasing surface order on lenses with an EPD '
                   'aperture and a marginal slope |u| >= 1e-3 in front of the surface',
                   'the solve / image_solve clause uses the ABCD reference built from the prescription read back after '
                   'the operation']

    def budget(self, tier):
        return (250, 8) if tier == 'quick' else (2500, 16)

    def strategy(self, tier):
        edit = st.fixed_dictionaries(dict(kind=st.just('edit'), spec=GL.lens_spec(EDIT), ops=op_strategy()))
        stop = st.fixed_dictionaries(dict(kind=st.just('stop'), spec=GL.lens_spec(EDIT, max_surfs=5), ops=stop_ops()))
        solves = st.fixed_dictionaries(dict(kind=st.just('edit'), spec=GL.lens_spec(SOLVE, min_surfs=3), ops=solve_history()))
        return weighted((5, edit), (1, solves), (1, stop))

    def describe(self, case):
        s = case['spec']
        return dict(kind=case['kind'], nsurf=len(s['surfs']), types=[q['type'] for q in s['surfs']],
                    obj=s['obj'], ops=case['ops'][:12], n_ops=len(case['ops']))

    # ------------------------------------------------------------------
    def check(self, case, out):
        spec = case['spec']
        out.cls(*GL.spec_classes(spec))
        if case['kind'] == 'stop':
            return self.check_stop(case, out)
        o = build(spec)                       # "every call with valid arguments succeeds": exceptions -> no_exception
        m = Model(spec)
        K = m.K
        Lsc = max(1.0, sum(abs(t) for t in m.t[1:]))
        if not compare(out, observe(o), m, Lsc, 0, 'build'):
            return
        kinds = set()
        n_edits = 0
        interior_t = False
        upd_with = False
        pick_tgts, pick_srcs, solve_gaps = set(), set(), set()
        last_solve = 0
        finite_obj = math.isfinite(m.t[0])
        for step, op in enumerate(case['ops'], start=1):
            name = op['op']
            applied = False
            if name == 'set_radius':
                k = 1 + op['s'] % K
                o.set_radius(op['v'], k)
                if math.isinf(m.R[k]) and m.stype[k] == 'standard':
                    out.cls('radius_on_plane')
                m.R[k] = op['v']
                applied = True
                out.close('reads_back', float(o.surface_group.radii[k]), op['v'], rtol=0, step=step, op=name)
            elif name == 'set_conic':
                k = 1 + op['s'] % K
                o.set_conic(op['v'], k)
                m.k[k] = op['v']
                applied = True
                out.close('reads_back', float(o.surface_group.conic[k]), op['v'], rtol=0, step=step, op=name)
            elif name == 'set_thickness':
                lo = 0 if finite_obj else 1
                k = lo + op['s'] % (K + 1 - lo)
                if k in solve_gaps:
                    continue
                v = op['v'] * (1.0 if m.t[k] >= 0 else -1.0)
                if k == 0:
                    v = abs(op['v']) + 1.0
                o.set_thickness(v, k)
                m.t[k] = v
                applied = True
                interior_t = interior_t or (1 <= k < K)
                out.close('reads_back', float(np.ravel(o.surface_group.get_thickness(k))[0]), v, atol=1e-9 * Lsc,
                          step=step, op=name)
            elif name == 'set_index':
                # any surface, mirrors and surfaces in front of mirrors included: exactly the medium behind surface k changes
                cand = list(range(1, K + 1))
                k = cand[op['s'] % len(cand)]
                o.set_index(op['v'], k)
                m.npost[k] = [op['v'], op['v']]
                applied = True
                out.close('reads_back', float(np.ravel(o.n(0.55))[k]), op['v'], rtol=0, step=step, op=name)
            elif name == 'set_asphere_coeff':
                cand = [k for k in range(1, K + 1) if m.stype[k] == 'even_asphere' and m.coef[k]]
                if not cand:
                    continue
                k = cand[op['s'] % len(cand)]
                i = op['i'] % len(m.coef[k])
                o.set_asphere_coeff(op['v'], k, i)
                m.coef[k][i] = op['v']
                applied = True
                out.close('reads_back', float(o.surface_group.surfaces[k].geometry.c[i]), op['v'], rtol=0,
                          step=step, op=name)
            elif name == 'variable':
                applied = self.do_variable(o, m, op, out, step, solve_gaps, finite_obj, Lsc)
                name = 'variable_' + op['vtype']
                if applied and op['vtype'] == 'thickness':
                    interior_t = True
            elif name == 'pickup':
                attr = op['attr']
                if attr == 'thickness':
                    srcs = [k for k in range(1, K + 1) if k not in solve_gaps and (attr, k) not in pick_tgts]
                    tgts = [k for k in range(1, K + 1) if k not in solve_gaps and (attr, k) not in pick_srcs and
                            (attr, k) not in pick_tgts]
                elif attr == 'radius':
                    srcs = [k for k in range(1, K + 1) if math.isfinite(m.R[k]) and (attr, k) not in pick_tgts]
                    tgts = [k for k in range(1, K + 1) if (attr, k) not in pick_srcs and (attr, k) not in pick_tgts]
                else:
                    srcs = [k for k in range(1, K + 1) if m.stype[k] != 'standard' or math.isfinite(m.R[k])
                            if (attr, k) not in pick_tgts]
                    tgts = [k for k in range(1, K + 1) if (m.stype[k] != 'standard' or math.isfinite(m.R[k])) and
                            (attr, k) not in pick_srcs and (attr, k) not in pick_tgts]
                if not srcs or not tgts:
                    continue
                src = srcs[op['src'] % len(srcs)]
                tg = [t for t in tgts if t != src]
                if not tg:
                    continue
                tgt = tg[op['tgt'] % len(tg)]
                scale, offset = op['scale'], op['offset']
                if attr == 'radius' and scale * m.R[src] + offset == 0:
                    offset += 1.0
                if attr == 'thickness':
                    # keep the sign convention of the target gap
                    pass
                o.pickups.add(src, attr, tgt, scale=scale, offset=offset)
                p = (src, attr, tgt, scale, offset)
                m.pickups.append(p)
                m.apply_pickup(p)
                pick_tgts.add((attr, tgt))
                pick_srcs.add((attr, src))
                applied = True
                if attr == 'thickness' and 1 <= tgt < K:
                    interior_t = True
            elif name == 'solve':
                if spec['ap']['type'] != 'EPD' or any(m.dx) or any(m.dy) or self.mirror_media_differ(m):
                    continue
                stop_idx = m.stop.index(True) if True in m.stop else 1
                # finite object: the marginal ray is aimed at the entrance pupil, which moves with every surface up
                # to the stop, so only surfaces behind the stop can be solved without changing the ray itself
                first = max(2, last_solve + 1, 2 if not finite_obj else stop_idx + 1)
                cand = [k for k in range(first, K + 2)
                        if ('thickness', k - 1) not in pick_tgts and ('thickness', k - 1) not in pick_srcs]
                if not cand:
                    continue
                k = cand[op['s'] % len(cand)]
                ps = GS.parax_from_optic(o)
                ya, ua = ps.marginal('EPD', spec['ap']['value'])
                u_before = ua[k - 2]
                if not (math.isfinite(u_before) and abs(u_before) >= 1e-3):
                    continue
                h = op['h']
                o.solves.add('marginal_ray_height', k, h)
                m.solves.append((k, h))
                solve_gaps.add(k - 1)
                last_solve = k
                self.resync_gap(o, m, k - 1)
                self.check_solves(o, m, spec, out, step, 'solves.add', Lsc, only=[(k, h)])
                applied = True
            elif name == 'update':
                o.update()
                for p in m.pickups:
                    m.apply_pickup(p)
                for (k, h) in m.solves:
                    self.resync_gap(o, m, k - 1)
                # every pickup relation, re-read from the library
                sg = o.surface_group
                for (src, attr, tgt, scale, offset) in m.pickups:
                    if attr == 'radius':
                        got, s_ = float(sg.radii[tgt]), float(sg.radii[src])
                    elif attr == 'conic':
                        got, s_ = float(sg.conic[tgt]), float(sg.conic[src])
                    else:
                        got, s_ = float(np.ravel(sg.get_thickness(tgt))[0]), float(np.ravel(sg.get_thickness(src))[0])
                    out.close('pickup_relation', got, scale * s_ + offset, rtol=1e-12, atol=1e-9 * Lsc, attr=attr,
                              src=src, tgt=tgt, step=step)
                self.check_solves(o, m, spec, out, step, 'update', Lsc)
                applied = True
                if m.pickups or m.solves:
                    upd_with = True
            elif name == 'image_solve':
                if any(m.dx) or any(m.dy) or self.mirror_media_differ(m):
                    continue     # decentred systems: the paraxial model is not the centred ABCD system
                ps = GS.parax_from_optic(o)
                at = spec['ap']['type']
                if at == 'imageFNO' and not math.isfinite(ps.f2()):
                    continue
                ya, ua = ps.marginal(at, spec['ap']['value'])
                if not (math.isfinite(ua[-2]) and abs(ua[-2]) >= 1e-3 and math.isfinite(ya[-1])) or K in solve_gaps:
                    continue
                if ('thickness', K) in pick_tgts or ('thickness', K) in pick_srcs:
                    continue
                o.image_solve()
                self.resync_gap(o, m, K)
                ps = GS.parax_from_optic(o)
                ya2, _ = ps.marginal(at, spec['ap']['value'])
                ysc = max(abs(v) for v in ya2[:-1]) if len(ya2) > 1 else 1.0
                out.close('image_solve_zero_height', ya2[-1], 0.0, atol=1e-9 * max(ysc, 1e-3), step=step)
                applied = True
            elif name == 'add_wavelength':
                o.add_wavelength(op['v'] * {'um': 1, 'nm': 1000, 'mm': 1e-3}[op['unit']], is_primary=op['prim'],
                                 unit=op['unit'])
                if op['prim']:
                    m.wl = [(w, False) for w, _ in m.wl]
                m.wl.append((op['v'], op['prim']))
                applied = True
            if applied:
                kinds.add(name)
                n_edits += 1
                out.cls('op_' + name)
                if not compare(out, observe(o), m, Lsc, step, name):
                    return
        out.nt(n_edits >= 3 and len(kinds) >= 2 and (interior_t or upd_with))

    @staticmethod
    def mirror_media_differ(m):
        """set_index at a mirror can give it different media on its two sides: no paraxial model is defined then"""
        return any(m.refl[k] and m.npost[k] != m.npost[k - 1] for k in range(1, m.K + 1))

    @staticmethod
    def resync_gap(o, m, k):
        """Gap k (between surfaces k and k+1) is governed by a solve: take its value from the library."""
        z = np.ravel(o.surface_group.positions)
        m.t[k] = float(z[k + 1] - z[k])

    def check_solves(self, o, m, spec, out, step, opname, Lsc, only=None):
        if not m.solves or any(m.dx) or any(m.dy) or self.mirror_media_differ(m):
            return
        ps = GS.parax_from_optic(o)
        ya, ua = ps.marginal(spec['ap']['type'], spec['ap']['value'])
        # solved positions z carry round-off eps |z| (and the entrance pupil found through the reversed system, shifted by the
        # last vertex, inherits it): the marginal slope turns that into a height error ~ |u| eps |z| x pupil conditioning
        zmax = float(np.nanmax(np.abs(np.ravel(o.surface_group.positions)[1:]))) if m.K else 0.0
        usc = max([abs(float(v)) for v in ua if math.isfinite(float(v))] + [0.0])
        for (k, h) in (only if only is not None else m.solves):
            ysc = max(1e-3, max(abs(v) for v in ya))
            u_in = float(ua[k - 2]) if k >= 2 else 0.0
            if not math.isfinite(u_in) or abs(u_in) <= 1e-9 * max(usc, ysc / Lsc):
                out.cls('solve_undefined_for_a_collimated_beam')     # an edit removed the power in front of the solve
                continue
            out.close('solve_places_marginal_ray', ya[k - 1], h, atol=1e-8 * max(ysc, abs(h), 1.0) + 1e-11 * zmax * usc,
                      surface=k, step=step, op=opname)

    def do_variable(self, o, m, op, out, step, solve_gaps, finite_obj, Lsc):
        from optiland.optimization.variable.variable import Variable
        K = m.K
        vt = op['vtype']
        kw = {}
        u = op['u']
        if vt == 'radius':
            cand = [k for k in range(1, K + 1) if math.isfinite(m.R[k])]
            if not cand:
                return False
            k = cand[op['s'] % len(cand)]
            phys = (5.0 + 300.0 * u) * (1 if op['i'] % 2 else -1)
        elif vt == 'conic':
            cand = [k for k in range(1, K + 1) if math.isfinite(m.R[k]) or m.stype[k] != 'standard']
            if not cand:
                return False
            k = cand[op['s'] % len(cand)]
            phys = -3.0 + 5.0 * u
        elif vt == 'thickness':
            cand = [k for k in range(1, K + 1) if k not in solve_gaps]
            if not cand:
                return False
            k = cand[op['s'] % len(cand)]
            phys = 50.0 * u * (1.0 if m.t[k] >= 0 else -1.0)
        elif vt == 'index':
            cand = list(range(1, K + 1))
            k = cand[op['s'] % len(cand)]
            phys = 1.2 + 1.3 * u
            kw['wavelength'] = 0.55
        elif vt == 'asphere_coeff':
            cand = [k for k in range(1, K + 1) if m.stype[k] == 'even_asphere' and m.coef[k]]
            if not cand:
                return False
            k = cand[op['s'] % len(cand)]
            kw['coeff_number'] = op['i'] % len(m.coef[k])
            phys = (u - 0.5) * 1e-4
        elif vt in ('tilt', 'decenter'):
            if vt == 'decenter' and m.solves:
                return False
            k = 1 + op['s'] % K
            kw['axis'] = op['axis']
            phys = (u - 0.5) * (0.2 if vt == 'tilt' else 2.0)
        elif vt in ('polynomial_coeff', 'chebyshev_coeff'):
            want = 'polynomial' if vt == 'polynomial_coeff' else 'chebyshev'
            cand = [k for k in range(1, K + 1) if m.stype[k] == want]
            if not cand:
                return False
            k = cand[op['s'] % len(cand)]
            rows, cols = len(m.coef[k]), len(m.coef[k][0])
            i, j = op['i'] % rows, op['j'] % cols
            kw['coeff_index'] = (i, j)
            phys = (u - 0.5) * 1e-3
        else:
            return False
        import contextlib, io
        with contextlib.redirect_stdout(io.StringIO()):
            var = Variable(o, vt, surface_number=k, apply_scaling=op['scaled'], **kw)
        # value to set, in the variable's own units
        if op['scaled']:
            set_v = float(var.variable.scale(phys))
        else:
            set_v = phys
        var.update(set_v)
        got = float(np.ravel(var.value)[0])
        out.close('variable_reads_back', got, set_v, rtol=1e-12, atol=1e-12 * (max(1.0, Lsc) if vt == 'thickness' else 1.0),
                  vtype=vt, scaled=op['scaled'], step=step)
        # the edited physical quantity is read back from the library (it is the one thing allowed to change) ...
        snap = observe(o)
        if vt == 'radius':
            m.R[k] = snap['R'][k]
            newp = m.R[k]
        elif vt == 'conic':
            m.k[k] = snap['k'][k]
            newp = m.k[k]
        elif vt == 'thickness':
            m.t[k] = snap['z'][k + 1] - snap['z'][k]
            newp = m.t[k]
        elif vt == 'index':
            m.npost[k] = list(snap['npost'][k])
            newp = m.npost[k][0]
        elif vt == 'asphere_coeff':
            m.coef[k][kw['coeff_number']] = snap['coef'][k][kw['coeff_number']]
            newp = m.coef[k][kw['coeff_number']]
        elif vt == 'tilt':
            key = 'rx' if op['axis'] == 'x' else 'ry'
            getattr(m, key)[k] = snap[key][k]
            newp = snap[key][k]
        elif vt == 'decenter':
            key = 'dx' if op['axis'] == 'x' else 'dy'
            getattr(m, key)[k] = snap[key][k]
            newp = snap[key][k]
        else:
            i, j = kw['coeff_index']
            m.coef[k][i][j] = snap['coef'][k][i][j]
            newp = m.coef[k][i][j]
        # ... and must be the physical value that was asked for
        out.close('variable_sets_physical_value', newp, phys, rtol=1e-9, atol=1e-12 * max(1.0, Lsc), vtype=vt,
                  scaled=op['scaled'], step=step)
        return True

    # ------------------------------------------------------------------
    def check_stop(self, case, out):
        spec = case['spec']
        o = build(spec)
        out.cls('stop_history')
        n_ops = 0
        for step, op in enumerate(case['ops'], start=1):
            n = o.surface_group.num_surfaces
            if op['op'] == 'insert':
                idx = 1 + op['s'] % (n - 1)
                if op.get('form', 'keywords') == 'object':
                    # the other documented argument form: a ready-made Surface object
                    from optiland.optic import Optic
                    tmp = Optic()
                    tmp.add_surface(index=0, radius=np.inf, thickness=1.0)
                    tmp.add_surface(index=1, radius=np.inf, thickness=0.0, is_stop=op['stop'])
                    o.add_surface(new_surface=tmp.surface_group.surfaces[1], index=idx)
                    out.cls('surface_object_inserted')
                else:
                    o.add_surface(index=idx, radius=np.inf, thickness=0.0, is_stop=op['stop'])
            elif op['op'] == 'remove':
                if n <= 3:
                    continue
                idx = 1 + op['s'] % (n - 2)
                o.surface_group.remove_surface(idx)
            else:
                o.add_wavelength(op['v'], is_primary=op['prim'], unit=op['unit'])
            n_ops += 1
            stops = sum(1 for s in o.surface_group.surfaces if s.is_stop)
            out.expect('at_most_one_stop', stops <= 1, stops=stops, step=step, op=op['op'])
            prim = sum(1 for w in o.wavelengths.wavelengths if w.is_primary)
            out.expect('exactly_one_primary', prim == 1, primaries=prim, step=step, op=op['op'])
        out.nt(n_ops >= 3)


CHECK = C01()
