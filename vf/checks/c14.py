"""C14 - optimisers leave the lens at the returned solution, never worse than the start."""
import contextlib
import copy
import io
import json
import math

import numpy as np
from hypothesis import strategies as st

from vf.harness import Check
from vf.gen import lens as GL
from vf.gen.build import build

OPT = GL.Profile(max_surfs=4, shapes=['standard', 'standard', 'even_asphere'], allow_mirror=False, keep_edges=True,
                 rho_min=3.0, steep_prob=0.0, ap_types=['EPD'], max_field_deg=6.0, max_n=2.0, zero_thickness=False,
                 image_refracts=False, positive_power=True, allow_glass=False, allow_finite=True,
                 allow_height_fields=False)

f = st.floats
sel = st.integers(0, 1000)
OPERANDS = ['f2', 'rms_spot_size', 'TSC_sum', 'seidel', 'real_y_intercept', 'OPD_difference', 'F2', 'CC_sum']
VARTYPES = ['radius', 'thickness', 'conic', 'index', 'asphere_coeff', 'tilt', 'decenter']
OPTIMIZERS = ['generic', 'nelder-mead', 'least_squares', 'dual_annealing', 'de1']


def quiet(fn, *a, **k):
    with contextlib.redirect_stdout(io.StringIO()), contextlib.redirect_stderr(io.StringIO()):
        return fn(*a, **k)


def lens_state(o):
    return json.loads(json.dumps(o.to_dict(), default=lambda v: np.asarray(v).tolist()))


def state_close(a, b, rtol, path=''):
    from vf.checks.c07 import dict_close
    return dict_close(a, b, rtol, path)


class C14(Check):
    pid = 'C14'
    title = 'Optimisers leave the lens at the returned solution, never worse than the start'
    rule = ('cases: generated small imaging lens (2-4 surfaces, optional radius pickup) x 1-3 operands from {f2, F2, '
            'rms_spot_size, TSC_sum, CC_sum, seidel, real_y_intercept, OPD_difference} with generated targets/weights x '
            '1-3 variables from {radius, thickness, conic, index, asphere_coeff, tilt, decenter}, scaled or unscaled, bounded '
            'or unbounded x optimiser {generic default, generic Nelder-Mead, LeastSquares, DualAnnealing, '
            'DifferentialEvolution workers=1; thorough: workers=2 and -1} with small iteration budgets, as the history '
            'optimise -> undo -> optimise or optimise -> optimise (same optimizer) -> undo -> undo; bounds around the start '
            'value or with the start value exactly on a bound (a bound of exactly 0 for tilt/decentre/conic). Oracle: merit recomputed from operand values on a twin lens; variable round trip; '
            'lens state vs result.x / result.fun; monotonicity; bounds (as given by the user, in the units of the value); pickup '
            'relation; optional image-surface solve (ABCD of the read-back prescription); undo restores the serialised lens. '
            'Non-trivial: >=3 objective evaluations and a variable moved by > 1e-6. Distinct = distinct case hashes.')
    assumptions = ['"not worse than the start" is claimed for all front ends used here (scipy keeps x0 in the DE population and '
                   'as initial state of dual annealing; BFGS/L-BFGS-B/Nelder-Mead/TRF never return a worse point than x0)',
                   'index variables only on ideal media; schedules of scipy\'s worker pool are not enumerated (outcomes are '
                   'compared for 1, 2 and all workers)']

    def budget(self, tier):
        return (60, 8) if tier == 'quick' else (200, 16)

    def strategy(self, tier):
        opts = OPTIMIZERS + (['de2', 'de_all'] if tier == 'thorough' else [])
        operand = st.fixed_dictionaries(dict(type=st.sampled_from(OPERANDS), rel=f(0.7, 1.3), weight=st.sampled_from(
            [1.0, 1.0, 0.5, 2.0]), a=sel, h=f(0.0, 1.0)))
        var = st.fixed_dictionaries(dict(type=st.sampled_from(VARTYPES), s=sel, scaled=st.booleans(), bounded=st.booleans(),
                                         axis=st.sampled_from(['x', 'y']),
                                         bmode=st.sampled_from(['around', 'around', 'start_at_lower', 'start_at_upper', 'lower_only', 'upper_only'])))
        return st.fixed_dictionaries(dict(spec=GL.lens_spec(OPT, min_surfs=2), operands=st.lists(operand, min_size=1, max_size=3),
                                          variables=st.lists(var, min_size=1, max_size=3), opt=st.sampled_from(opts),
                                          pickup=st.booleans(), second=st.sampled_from(OPTIMIZERS[:3]),
                                          hist=st.sampled_from(['undo_then_optimise', 'twice_then_undo_undo']),
                                          solve=st.sampled_from([False, False, True])))

    def describe(self, case):
        s = case['spec']
        return dict(opt=case['opt'], second=case['second'], pickup=case['pickup'], operands=[o['type'] for o in case['operands']],
                    variables=[(v['type'], v['scaled'], v['bounded']) for v in case['variables']], nsurf=len(s['surfs']))

    # ------------------------------------------------------------------
    def make_problem(self, case, o, spec):
        from optiland.optimization import OptimizationProblem
        K = len(spec['surfs'])
        prob = OptimizationProblem()
        w = o.primary_wavelength
        ops = []
        for od in case['operands']:
            t = od['type']
            data = {'optic': o}
            if t == 'rms_spot_size':
                data.update(surface_number=-1, Hx=0.0, Hy=round(od['h'], 3), num_rays=2, wavelength=w, distribution='hexapolar')
            elif t == 'seidel':
                data.update(seidel_number=1 + od['a'] % 5)
            elif t == 'real_y_intercept':
                data.update(surface_number=-1, Hx=0.0, Hy=round(od['h'], 3), Px=0.0, Py=0.7, wavelength=w)
            elif t == 'OPD_difference':
                data.update(Hx=0.0, Hy=round(od['h'], 3), num_rays=2, wavelength=w)
            ops.append((t, data, od))
        # targets relative to the current value
        from optiland.optimization.operand import Operand
        for t, data, od in ops:
            cur = float(np.ravel(Operand(t, 0.0, 1.0, data).value)[0])
            if not math.isfinite(cur):
                return None
            target = cur * od['rel'] if t in ('f2', 'F2') else cur * (od['rel'] - 0.7)
            prob.add_operand(t, target, od['weight'], data)
        used = set()
        for vd in case['variables']:
            vt = vd['type']
            kw = {}
            if vt == 'radius':
                cand = [k for k in range(1, K + 1) if spec['surfs'][k - 1]['R'] != GL.INF]
            elif vt == 'conic':
                cand = [k for k in range(1, K + 1) if spec['surfs'][k - 1]['R'] != GL.INF]
            elif vt == 'thickness':
                cand = list(range(1, K + 1 - (1 if self.solve_on else 0)))      # the last gap belongs to the solve
            elif vt == 'index':
                cand = [k for k in range(1, K + 1) if spec['surfs'][k - 1]['mat']['kind'] == 'ideal']
                kw['wavelength'] = w
            elif vt == 'asphere_coeff':
                cand = [k for k in range(1, K + 1) if spec['surfs'][k - 1]['type'] == 'even_asphere' and
                        spec['surfs'][k - 1]['coef']]
                kw['coeff_number'] = 0
            else:
                cand = list(range(1, K + 1))
                kw['axis'] = vd['axis']
            cand = [k for k in cand if (vt, k) not in used and not (case['pickup'] and vt == 'radius' and self.pick_tgt and k in self.pick_tgt)]
            if not cand:
                continue
            k = cand[vd['s'] % len(cand)]
            used.add((vt, k))
            if vt == 'asphere_coeff':
                kw['coeff_number'] = vd['s'] % len(spec['surfs'][k - 1]['coef'])
            from optiland.optimization.variable.variable import Variable
            cur = float(np.ravel(Variable(o, vt, surface_number=k, apply_scaling=False, **kw).value)[0])
            span = {'radius': 0.3 * abs(cur), 'thickness': 0.3 * abs(cur) + 0.5, 'conic': 1.0, 'index': 0.1,
                    'asphere_coeff': abs(cur) + 1e-6, 'tilt': 0.02, 'decenter': 0.2}[vt]
            need_bounds = vd['bounded'] or case['opt'] in ('dual_annealing', 'de1', 'de2', 'de_all')
            if need_bounds:
                # the start value may sit exactly on a bound (for tilt, decentre, conic 0 that bound is exactly 0)
                bm = vd.get('bmode', 'around')
                if case['opt'] in ('dual_annealing', 'de1', 'de2', 'de_all'):
                    bm = 'around'      # scipy's global optimisers map x0 to the unit box and reject round-off outside it
                kw['min_val'] = cur if bm == 'start_at_lower' else cur - span
                kw['max_val'] = cur if bm == 'start_at_upper' else cur + span
                # a bound on one side only (the local optimisers accept that)
                if bm == 'lower_only':
                    kw['min_val'], kw['max_val'] = cur - 0.1 * span, None
                elif bm == 'upper_only':
                    kw['min_val'], kw['max_val'] = None, cur + 0.1 * span
            quiet(prob.add_variable, o, vt, surface_number=k, apply_scaling=vd['scaled'], **kw)
        if not prob.variables:
            return None
        return prob

    def recompute_merit(self, prob, twin_state_optic):
        """merit from operand values evaluated on a twin lens brought to the same state"""
        from optiland.optimization.operand import Operand
        tot = 0.0
        for op in prob.operands:
            data = dict(op.input_data)
            data['optic'] = twin_state_optic
            v = float(np.ravel(Operand(op.type, op.target, op.weight, data).value)[0])
            tot += (op.weight * (v - op.target)) ** 2
        return tot

    def check(self, case, out):
        from optiland import optimization as OP
        from optiland.optic import Optic
        spec = copy.deepcopy(case['spec'])
        K = len(spec['surfs'])
        out.cls(*GL.spec_classes(spec))
        out.cls('opt_' + case['opt'])
        o = build(spec)
        self.Lsc = max(1.0, sum(abs(q['t']) for q in spec['surfs']))
        self.pick_tgt = None
        pick = None
        if case['pickup'] and K >= 2:
            fin = [k for k in range(1, K + 1) if spec['surfs'][k - 1]['R'] != GL.INF]
            if len(fin) >= 2:
                src, tgt = fin[0], fin[-1]
                o.pickups.add(src, 'radius', tgt, scale=-1.0, offset=0.0)
                pick = (src, tgt)
                self.pick_tgt = {tgt}
                out.cls('with_pickup')
                if len(fin) >= 3:
                    # a chain: the target of the first pickup is the source of a second one (added after it)
                    o.pickups.add(tgt, 'radius', fin[1], scale=1.0, offset=0.0)
                    pick = (src, tgt, fin[1])
                    self.pick_tgt = {tgt, fin[1]}
                    out.cls('with_chained_pickups')
        # optionally a marginal-ray-height solve keeps the image surface at the paraxial focus (no pickup needed for it)
        self.solve_on = bool(case.get('solve')) and spec['ap']['type'] == 'EPD' and \
            not any(v['type'] in ('tilt', 'decenter') for v in case['variables']) and \
            not any(q['dx'] or q['dy'] for q in spec['surfs'])
        if self.solve_on:
            o.solves.add('marginal_ray_height', K + 1, 0.0)
            out.cls('with_solve')
        o.update()
        prob = self.make_problem(case, o, spec)
        if prob is None:
            out.cls('no_applicable_variable_or_operand_undefined')
            return
        for v in prob.variables:
            one_sided = (v.min_val is None) != (v.max_val is None)
            out.cls('var_' + v.type + ('_scaled' if v.apply_scaling else '_raw') +
                    ('_one_sided' if one_sided else ('_bounded' if v.min_val is not None else '')))
            if (v.min_val is not None and v.min_val == 0) or (v.max_val is not None and v.max_val == 0):
                out.cls('bound_exactly_zero')
        for op in prob.operands:
            out.cls('operand_' + op.type)
        # 1. merit function definition, on a twin lens in the same state
        twin = Optic.from_dict(lens_state(o))
        m0 = float(prob.sum_squared())
        if not math.isfinite(m0):
            out.cls('merit_not_finite_at_start')
            return
        # round-off floor of the merit: operands are only defined to ~1e-10 of their size
        self.floor = sum((op.weight * 1e-11 * max(abs(op.target), self.Lsc)) ** 2 for op in prob.operands)
        out.close('merit_is_weighted_sum_of_squares', m0, self.recompute_merit(prob, twin), rtol=1e-9, atol=self.noise(m0))
        out.close('rss_is_sqrt_of_merit', float(prob.rss()), math.sqrt(m0), rtol=1e-12)
        # 2. variables are faithful handles
        self.ref_bounds = {}
        for v in prob.variables:
            val = float(np.ravel(v.value)[0])
            b = v.bounds
            if v.min_val is not None or v.max_val is not None:
                conv = (lambda x: float(v.variable.scale(x))) if v.apply_scaling else float
                lo = conv(v.min_val) if v.min_val is not None else -math.inf
                hi = conv(v.max_val) if v.max_val is not None else math.inf
                self.ref_bounds[id(v)] = (min(lo, hi), max(lo, hi))
                got_b = [(-math.inf if i == 0 else math.inf) if x is None else float(x) for i, x in enumerate(b)]
                out.close('bounds_in_units_of_value', got_b, [lo, hi], rtol=1e-12, atol=1e-15,
                          vtype=v.type, scaled=v.apply_scaling, reported=[None if x is None else float(x) for x in b])
                out.expect('start_value_within_bounds', min(lo, hi) - 1e-9 * (1 + abs(val)) <= val <= max(lo, hi) + 1e-9 * (1 + abs(val)),
                           vtype=v.type, scaled=v.apply_scaling, value=val, bounds=[lo, hi])
            v.update(val)
            out.close('variable_set_then_read', float(np.ravel(v.value)[0]), val, rtol=1e-12, atol=1e-15, vtype=v.type)
        self.start_on_bound = self.near_bound(prob)
        snap0 = lens_state(o)
        x_start = [float(np.ravel(v.value)[0]) for v in prob.variables]
        # 3. optimise
        nfev_counter = {'n': 0}
        res, kind = self.run_opt(case['opt'], prob)
        self.after_optimise(out, case['opt'], prob, res, kind, m0, o, pick, tag='')
        moved = max(abs(a - b) for a, b in zip(x_start, [float(np.ravel(v.value)[0]) for v in prob.variables]))
        nfev = int(getattr(res, 'nfev', 0))
        optimizer = self.last_optimizer
        out.cls('history_' + case.get('hist', 'undo_then_optimise'))
        if case.get('hist') == 'twice_then_undo_undo':
            # 4'. a second optimize() on the same optimizer object, then two undos: each undo takes back one run
            snap1 = lens_state(o)
            m1 = float(prob.sum_squared())
            self.start_on_bound = self.near_bound(prob)      # the first run may have ended on a bound
            try:
                res2, kind2 = self.run_opt(case['opt'], prob, reuse=True)
            except ValueError as e:
                if 'x0 lay outside' in str(e):
                    # scipy's differential evolution maps x0 to the unit box and rejects a first solution that sits on
                    # a bound because of its own round-off; nothing of the property is decided by that
                    out.cls('scipy_rejects_x0_on_bound')
                    return
                raise
            self.after_optimise(out, case['opt'], prob, res2, kind2, m1, o, pick, tag='_second')
            optimizer.undo()
            self.settle(o)
            diff = state_close(lens_state(o), snap1, 1e-10)
            out.expect('undo_takes_back_the_last_run', diff is None, diff=diff, opt=case['opt'])
            optimizer.undo()
            self.settle(o)
            diff = state_close(lens_state(o), snap0, 1e-10)
            out.expect('second_undo_restores_the_start', diff is None, diff=diff, opt=case['opt'])
            out.close('undo_restores_the_merit', float(prob.sum_squared()), m0, rtol=1e-7, atol=self.noise(m0))
        else:
            # 4. undo restores the lens
            optimizer.undo()
            self.settle(o)
            diff = state_close(lens_state(o), snap0, 1e-10)
            out.expect('undo_restores_the_lens', diff is None, diff=diff, opt=case['opt'])
            m_undo = float(prob.sum_squared())
            out.close('undo_restores_the_merit', m_undo, m0, rtol=1e-7, atol=self.noise(m0))
            # 5. optimise again (history optimise / undo / optimise)
            try:
                res2, kind2 = self.run_opt(case['second'], prob)
            except ValueError as e:
                if self.start_on_bound and ('outside of provided bounds' in str(e) or 'infeasible' in str(e)):
                    # the restored start value sits on a bound up to round-off (a thickness is read back as a difference
                    # of vertex positions); scipy's least_squares rejects a start 1 ulp outside the box
                    out.cls('scipy_rejects_x0_on_bound')
                    return
                raise
            self.after_optimise(out, case['second'], prob, res2, kind2, m_undo, o, pick, tag='_second')
        out.nt(nfev >= 3 and moved > 1e-6)

    def near_bound(self, prob):
        """a current value within 1e-10 max(1, |bound|) of a bound: what scipy's least_squares treats as an active
        constraint of the start point (and moves inside by that much before the first evaluation)"""
        for v in prob.variables:
            if id(v) in self.ref_bounds:
                x = float(np.ravel(v.value)[0])
                if any(math.isfinite(b) and abs(x - b) <= 1e-10 * max(1.0, abs(b)) for b in self.ref_bounds[id(v)]):
                    return True
        return False

    def run_opt(self, name, prob, reuse=False):
        """one optimize() call; reuse=True runs it on the optimizer object of the previous call"""
        from optiland import optimization as OP
        cls, kw, kind = {
            'generic': (OP.OptimizerGeneric, dict(maxiter=8, disp=False, tol=1e-6), 'generic'),
            'nelder-mead': (OP.OptimizerGeneric, dict(method='Nelder-Mead', maxiter=25, disp=False, tol=1e-6), 'generic'),
            'least_squares': (OP.LeastSquares, dict(maxiter=10, disp=False, tol=1e-8), 'ls'),
            'dual_annealing': (OP.DualAnnealing, dict(maxiter=3, disp=False), 'generic'),
            'de1': (OP.DifferentialEvolution, dict(maxiter=2, disp=False, workers=1), 'generic'),
            'de2': (OP.DifferentialEvolution, dict(maxiter=2, disp=False, workers=2), 'generic'),
            'de_all': (OP.DifferentialEvolution, dict(maxiter=2, disp=False, workers=-1), 'generic'),
        }[name]
        if not reuse:
            self.last_optimizer = cls(prob)
        return quiet(self.last_optimizer.optimize, **kw), kind

    def settle(self, o):
        """update(): the documented way to bring pickups and solves in line after an edit.  With a solve it is called
        twice: the solve moves the surface by a difference, so coming back from a far excursion of the optimiser (image
        surface 2e7 mm away) the first pass carries the round-off of that distance (2e-9 mm), the second removes it."""
        o.update()
        if self.solve_on:
            o.update()

    def noise(self, m):
        """round-off allowance on a merit value m = sum (w (v - t))^2 whose operand values v carry an error d (the
        prescription is reached by a different sequence of float operations): 2 sqrt(m) d + d^2 with d^2 = self.floor"""
        return 2 * math.sqrt(max(m, 0.0) * self.floor) + self.floor

    def after_optimise(self, out, name, prob, res, kind, m_start, o, pick, tag):
        x = np.ravel(np.asarray(res.x, dtype=float))
        vals = np.array([float(np.ravel(v.value)[0]) for v in prob.variables])
        out.close('lens_is_at_returned_solution' + tag, vals, x, rtol=1e-9, atol=1e-12, opt=name)
        fun = float(np.ravel(res.fun)[0])
        m_now = float(prob.sum_squared())
        abnormal = 'ABNORMAL' in str(getattr(res, 'message', ''))
        if abnormal:
            # scipy's L-BFGS-B returns x0 together with the objective of a failed line-search point
            out.cls('scipy_abnormal_termination')
        if math.isfinite(m_now) and fun < 1e9 and not abnormal:
            if name == 'dual_annealing' and abs(m_now - fun) > 1e-7 * max(m_now, fun) + self.noise(max(m_now, fun)):
                # the local search inside dual_annealing is L-BFGS-B, whose failed line searches hand back the objective
                # of a neighbouring trial point without a message (same scipy behaviour as above; seen in both
                # directions, verified by recording the evaluations): the lens is at result.x (clause
                # lens_is_at_returned_solution); the two objectives belong to neighbouring points of one line search
                out.cls('scipy_inconsistent_pair_from_local_search')
                out.close('merit_reproduces_returned_objective' + tag, m_now, fun, rtol=1e-3, atol=self.noise(max(m_now, fun)),
                          opt=name, weakened='scipy line-search neighbour')
            else:
                out.close('merit_reproduces_returned_objective' + tag, m_now, fun, rtol=1e-7, atol=self.noise(max(m_now, fun)), opt=name)
        if math.isfinite(m_now):
            slack = self.noise(m_start)
            if name == 'least_squares' and self.start_on_bound:
                # scipy's trust-region solver first moves a start value that sits on a bound strictly inside it
                # (relative step 1e-10) and may return that point
                d2 = sum((op.weight * 1e-8 * max(abs(op.target), self.Lsc)) ** 2 for op in prob.operands)
                slack += 2 * math.sqrt(max(m_start, 0.0) * d2) + d2 + 1e-6 * m_start
            out.expect('not_worse_than_start' + tag, m_now <= m_start * (1 + 1e-9) + slack, start=m_start, now=m_now,
                       opt=name)
        for v, xv in zip(prob.variables, vals):
            if id(v) in self.ref_bounds:
                # the bounds the user gave, in the units of the value (not what the library reports them to be)
                lo, hi = self.ref_bounds[id(v)]
                out.expect('within_bounds' + tag, (lo == -math.inf or lo - 1e-9 * (1 + abs(lo)) <= xv) and
                           (hi == math.inf or xv <= hi + 1e-9 * (1 + abs(hi))), value=xv,
                           bounds=[float(lo), float(hi)], vtype=v.type, opt=name)
        if self.solve_on:
            from vf.gen import samples as GS
            ya, ua = GS.parax_from_optic(o).marginal('EPD', float(o.aperture.value))
            ysc = max(1e-3, max(abs(float(v)) for v in ya))
            usc = max(abs(float(v)) for v in ua) if len(ua) else 0.0
            if not all(math.isfinite(float(v)) for v in ya) or abs(float(ua[-2])) <= 1e-6 * max(usc, ysc / self.Lsc):
                out.cls('solve_undefined_for_a_collimated_beam')
            else:
                out.close('solve_satisfied_after_optimise' + tag, float(ya[-1]), 0.0, atol=1e-9 * max(ysc, 1.0), opt=name)
        if pick:
            sg = o.surface_group
            out.close('pickup_satisfied_after_optimise' + tag, float(sg.radii[pick[1]]), -float(sg.radii[pick[0]]),
                      rtol=1e-12, opt=name)
            if len(pick) == 3:
                out.close('pickup_satisfied_after_optimise' + tag, float(sg.radii[pick[2]]), float(sg.radii[pick[1]]),
                          rtol=1e-12, opt=name, link='second of the chain')


CHECK = C14()
