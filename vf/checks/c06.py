"""C06 - analytically stigmatic systems are imaged perfectly."""
import copy
import math

import numpy as np
from hypothesis import strategies as st

from vf.harness import Check
from vf.gen.build import build
from vf.gen.simple import spec, surf, glass, MIRROR, AIR

f = st.floats
FAMILIES = ['paraboloid', 'ellipsoid', 'hyperboloid', 'plano_hyperbolic', 'centre_of_curvature', 'aplanatic']


def pupil_points():
    """hexapolar(6) + rim"""
    xs, ys = [0.0], [0.0]
    for i in range(1, 7):
        for j in range(6 * i):
            t = 2 * math.pi * j / (6 * i)
            xs.append(i / 6 * math.cos(t))
            ys.append(i / 6 * math.sin(t))
    for j in range(16):
        t = 2 * math.pi * (j + 0.5) / 16
        xs.append(math.cos(t))
        ys.append(math.sin(t))
    return np.array(xs), np.array(ys)


class C06(Check):
    pid = 'C06'
    title = 'Analytically stigmatic systems are imaged perfectly'
    rule = ('cases: generated parameters of six closed-form families - paraboloid mirror (object at infinity, R of either '
            'sign, f/0.6 .. f/10), ellipsoid and hyperboloid mirrors between their geometric foci, plano-hyperbolic singlet '
            '(k=-n^2, n in [1.3,4]), spherical surface imaging its centre of curvature, aplanatic points of a sphere; EPD up '
            'to 95% of the geometric limit; hexapolar(6)+rim pupil points; the lens built directly or built detuned and '
            'brought to the closed form with set_radius/set_conic/set_index/set_thickness (after having been traced once), '
            'or built at another size and brought there with scale_system(); PSF grids even and odd. Oracle: image point and equal optical path known '
            'in closed form; wavefront error and Strehl of the real-image families. Non-trivial: marginal ray incidence '
            '> 10 deg (a fast system). Distinct = distinct parameter hashes.')
    assumptions = ['virtual-image configurations use the back-projected rays and skip the wavefront/PSF clauses',
                   'tolerances: image point 1e-9 L, optical path 1e-9 L, wavefront 1e-6 waves, Strehl 1e-6']

    def budget(self, tier):
        return (120, 8) if tier == 'quick' else (800, 16)

    def strategy(self, tier):
        return st.fixed_dictionaries(dict(family=st.sampled_from(FAMILIES), R=f(5.0, 500.0), sign=st.sampled_from([1, -1]),
                                          fill=f(0.05, 0.95), n=f(1.3, 4.0), a=f(0.1, 0.9), b=f(1.1, 6.0),
                                          wl=f(0.45, 0.7), psf=st.booleans(),
                                          grid=st.one_of(st.sampled_from([(64, 256), (48, 129), (32, 127), (64, 255), (50, 200),
                                                                          (33, 128)]),
                                                         st.tuples(st.integers(24, 70), st.integers(100, 300))),
                                          via=st.sampled_from(['build', 'build', 'setters', 'setters', 'scaled']),
                                          detune=st.sampled_from(['all', 'conic', 'radius', 'index', 'thickness']),
                                          # the singlet in a catalogue (dispersive) glass, stigmatic at a wavelength of
                                          # the lens that is not its primary one (0: no)
                                          cat=st.integers(0, 3), cat_glass=st.integers(0, 1000), wl2=f(0.45, 0.7)))

    # ------------------------------------------------------------------
    def check(self, case, out):
        fam = case['family']
        out.cls('family_' + fam)
        getattr(self, 'do_' + fam)(case, out)

    def run(self, out, case, sp, P, n_img, real, Lsc, first_mirror=False):
        """Trace the pupil bundle on axis and evaluate the clauses.  P: image point (global), n_img: index of the
        medium in which the rays finally travel."""
        o = self.construct(case, sp, out)
        w = sp.get('analyse_wl', sp['wls'][0])
        px, py = pupil_points()
        o.trace_generic(np.zeros_like(px), np.zeros_like(px), px.copy(), py.copy(), w)
        sg = o.surface_group
        K = len(sp['surfs'])
        fin = np.isfinite(sg.x[K]) & np.isfinite(sg.L[K])
        out.expect('rays_exist_inside_the_geometric_limit', np.all(fin), n_failed=int(np.sum(~fin)), family=case['family'])
        if not np.any(fin):
            return
        g = np.where(fin)[0]
        # last real surface record
        p = np.array([sg.x[K][g], sg.y[K][g], sg.z[K][g]])
        d = np.array([sg.L[K][g], sg.M[K][g], sg.N[K][g]])
        opd = np.array(sg.opd[K], dtype=float)[g]
        Pv = np.array(P, dtype=float)[:, None]
        # distance of the point P from each ray line (forward or backward)
        v = Pv - p
        t = np.sum(v * d, axis=0)
        perp = v - t * d
        dist = np.sqrt(np.sum(perp ** 2, axis=0))
        out.close('rays_meet_the_image_point', dist, np.zeros_like(dist), atol=1e-9 * Lsc, family=case['family'],
                  real=real)
        out.expect('image_on_the_expected_side', np.all(t > 0) if real else np.all(t < 0), family=case['family'],
                   t=t[:3])
        # equal optical path to the (real or virtual) image point: opd + n' * signed distance along the ray
        total = opd + n_img * t
        out.close('equal_optical_path', np.ptp(total), 0.0, atol=1e-9 * Lsc, family=case['family'])
        # incidence angle of the steepest ray, from the independent per-surface law checker (which also re-checks C02 here)
        from vf.ref import trace as RT
        stt = RT.check_trace(out, sp, RT.records(o), w, check_nonfinite=False)
        aoi = stt['max_aoi']
        out.nt(aoi > 10.0)
        if aoi > 10.0:
            out.cls('fast')
        if real:
            # the image surface is at P: all rays must land on it
            xi, yi = np.array(sg.x[K + 1])[g], np.array(sg.y[K + 1])[g]
            out.close('spot_is_a_point', np.hypot(xi - P[0], yi - P[1]), np.zeros(len(g)), atol=1e-9 * Lsc,
                      family=case['family'])
            from optiland.wavefront import Wavefront
            wf = Wavefront(o, fields=[(0.0, 0.0)], wavelengths=[w], num_rays=6, distribution='hexapolar')
            W = np.asarray(wf.data[0][0][0], dtype=float)
            out.close('wavefront_error_zero', W, np.zeros_like(W), atol=1e-6, family=case['family'])
            if case['psf']:
                from optiland.psf import FFTPSF
                nr, gs = case.get('grid', (64, 256))
                psf = FFTPSF(o, (0.0, 0.0), w, num_rays=nr, grid_size=gs)
                out.cls('psf_grid_%s' % ('odd' if gs % 2 else 'even'))
                out.close('strehl_is_one', float(psf.strehl_ratio()), 1.0, atol=1e-6, family=case['family'])
                out.cls('psf_checked')

    def construct(self, case, sp, out):
        """the lens of the closed form, built directly or built detuned and brought to the closed form with the
        public setters (set_radius / set_conic / set_index / set_thickness)"""
        if case.get('via', 'build') == 'scaled':
            # built at another size and brought to the closed form with scale_system()
            out.cls('reached_through_scale_system')
            sc = case['b'] if case['sign'] > 0 else 1.0 / case['b']
            d = copy.deepcopy(sp)
            for q in d['surfs']:
                if q['R'] != 'inf':
                    q['R'] = q['R'] / sc
                q['t'] = q['t'] / sc
            if d['obj']['t'] != 'inf':
                d['obj']['t'] = d['obj']['t'] / sc
            d['ap']['value'] = d['ap']['value'] / sc
            o = build(d)
            o.scale_system(sc)
            return o
        if case.get('via', 'build') != 'setters':
            return build(sp)
        out.cls('reached_through_setters')
        d = copy.deepcopy(sp)
        what = case.get('detune', 'all')          # which quantities start detuned (one kind alone, or all of them)
        out.cls('detuned_' + what)
        for q in d['surfs']:
            if q['R'] != 'inf':
                if what in ('all', 'radius'):
                    q['R'] = q['R'] * 1.13
                if what in ('all', 'conic'):
                    q['k'] = q['k'] + 0.21
            if what in ('all', 'thickness'):
                q['t'] = q['t'] * 0.9
            if q['mat'].get('kind') == 'ideal' and what in ('all', 'index'):
                q['mat'] = glass(q['mat']['n'] * 1.07)
        if d['obj']['t'] != 'inf' and what in ('all', 'thickness'):
            d['obj']['t'] = d['obj']['t'] * 1.2
        o = build(d)
        # the detuned lens is used once (traced, paraxial data read) before it is edited
        px, py = pupil_points()
        o.trace_generic(np.zeros_like(px), np.zeros_like(px), 0.3 * px, 0.3 * py, d['wls'][0])
        o.paraxial.f2()
        for k, q in enumerate(sp['surfs'], start=1):
            if q['R'] != 'inf':
                o.set_radius(q['R'], k)
                o.set_conic(q['k'], k)
            if q['mat'].get('kind') == 'ideal':
                o.set_index(q['mat']['n'], k)
        if sp['obj']['t'] != 'inf':
            o.set_thickness(sp['obj']['t'], 0)
        for k, q in enumerate(sp['surfs'], start=1):
            o.set_thickness(q['t'], k)
        return o

    # -- families ------------------------------------------------------
    def do_paraboloid(self, case, out):
        R = case['sign'] * case['R']
        fl = abs(R) / 2
        fno = 0.6 + 9.4 * (1 - case['fill'])             # f/0.6 .. f/10
        epd = min(fl / fno, 0.95 * 2 * abs(R))
        real = R < 0                                     # concave towards the incoming light
        t_img = R / 2 if real else -abs(R) / 4
        sp = spec([surf(R=R, k=-1.0, t=t_img, mat=MIRROR, stop=True)], ap=('EPD', epd), fields=(0.0,),
                  wls=(round(case['wl'], 6),))
        self.run(out, case, sp, (0.0, 0.0, R / 2), -1.0 if False else 1.0, real, max(1.0, abs(R)))

    def conic_mirror(self, case, out, hyper):
        R0 = case['R']
        if hyper:
            k = -case['b']                 # k < -1
            R = case['sign'] * R0
        else:
            k = -case['a']                 # -1 < k < 0
            R = -R0                        # both foci in front of the mirror
        e = math.sqrt(-k)
        z1 = R * (1 + e) / (1 + k)
        z2 = R * (1 - e) / (1 + k)
        front = [z for z in (z1, z2) if z < 0]
        if not front:
            out.cls('no_focus_in_front')
            return
        z_obj = front[0] if len(front) == 1 else (z1 if case['sign'] > 0 else z2)
        z_img = z2 if z_obj == z1 else z1
        real = z_img < 0
        d_obj = -z_obj
        # geometric limit of the aperture: the mirror exists for r < |R|/sqrt(1+k) (ellipse), everywhere (hyperbola)
        r_lim = abs(R) / math.sqrt(1 + k) if k > -1 else 4 * abs(R)
        h_lim = min(r_lim, 2 * abs(R), 3 * d_obj)
        if k < -1:
            # a ray steeper than the asymptotic cone of the hyperboloid never meets it
            h_lim = min(h_lim, d_obj * math.sqrt(-(1 + k)))
        h = 0.95 * case['fill'] * h_lim
        epd = 2 * h
        t_img = z_img if real else -0.5 * d_obj
        sp = spec([surf(R=R, k=k, t=t_img, mat=MIRROR, stop=True)], t_obj=d_obj, ap=('EPD', epd), fields=(0.0,),
                  wls=(round(case['wl'], 6),))
        # the conjugates of a conic mirror lie at R (1 +- e) / (1 + k): lengths (and round-off) grow like 1 / |1 + k|, and so
        # does the loss of the conic root; the tolerances scale with the same factor
        cond = max(1.0, 1.0 / abs(1 + k))
        self.run(out, case, sp, (0.0, 0.0, z_img), 1.0, real, max(1.0, abs(R), d_obj, abs(z_img)) * cond)

    def do_ellipsoid(self, case, out):
        self.conic_mirror(case, out, hyper=False)

    def do_hyperboloid(self, case, out):
        self.conic_mirror(case, out, hyper=True)

    def do_plano_hyperbolic(self, case, out):
        n = case['n']
        mat, wls, prim, w = glass(n), (round(case['wl'], 6),), 0, None
        if case.get('cat') == 1 and abs(case['wl'] - case.get('wl2', case['wl'])) > 0.02:
            # catalogue glass: the conic is -n(w)^2 for the second wavelength of the lens, the primary one is another
            from vf.gen import lens as GL
            gl = GL.glasses()
            mat = dict(gl[case['cat_glass'] % len(gl)])
            w = round(case['wl'], 6)
            wls, prim = (round(case['wl2'], 6), w), 0
            n = GL.mat_index(mat, w)
            case = dict(case, via='build')
            out.cls('catalogue_glass_at_non_primary_wavelength')
        R = -case['R']                      # exit surface convex towards the image
        k = -n * n
        fl = R / (1 - n)
        # hyperboloid z = c r^2/(1+sqrt(1-(1+k)c^2 r^2)) exists for all r; asymptote limits the useful aperture:
        # rays inside the glass are parallel to the axis; total internal reflection when the local slope exceeds
        # the critical angle: tan(theta_n) = r c / sqrt(1 + (n^2-1) c^2 r^2) -> always below 1/sqrt(n^2-1): no TIR
        h = case['fill'] * 0.95 * 3.0 * abs(R) / n
        tc = 0.1 * abs(R) + abs(R) * 0 + self.sag(R, k, h) * -1 + 0.05 * abs(R)
        tc = max(tc, 0.05 * abs(R))
        sp = spec([surf(R='inf', t=tc, mat=mat, stop=True), surf(R=R, k=k, t=fl)], ap=('EPD', 2 * h), fields=(0.0,),
                  wls=wls, prim=prim)
        if w is not None:
            sp['analyse_wl'] = w
        self.run(out, case, sp, (0.0, 0.0, tc + fl), 1.0, True, max(1.0, abs(R), abs(fl)))

    @staticmethod
    def sag(R, k, h):
        c = 1.0 / R
        return c * h * h / (1 + math.sqrt(1 - (1 + k) * c * c * h * h))

    def do_centre_of_curvature(self, case, out):
        n = case['n']
        d = case['R']
        R = -d                               # centre of curvature at the object point
        h = 0.95 * case['fill'] * d
        # rays aimed at the pupil plane z = 0 (stop on the surface) with semi-diameter h
        sp = spec([surf(R=R, t=0.5 * d, mat=glass(n), stop=True)], t_obj=d, ap=('EPD', 2 * h), fields=(0.0,),
                  wls=(round(case['wl'], 6),), img=glass(n))
        self.run(out, case, sp, (0.0, 0.0, -d), n, False, max(1.0, d))

    def do_aplanatic(self, case, out):
        n = case['n']                       # object space index (point source inside the denser medium), image in air
        n2 = 1.0
        R = -case['R']
        s = R * (n + n2) / n                # object distance (negative: in front)
        s2 = R * (n + n2) / n2              # image distance (negative: virtual, in front)
        d = -s
        # sin U' = (n/n') sin U must stay below 1, and the ray must reach the sphere
        u_max = math.asin(min(0.999, n2 / n)) * 0.95 * case['fill']
        h = d * math.tan(u_max)
        sp = spec([surf(R=R, t=0.5 * abs(R), mat=AIR, stop=True)], t_obj=d, n0=n, ap=('EPD', 2 * h), fields=(0.0,),
                  wls=(round(case['wl'], 6),))
        self.run(out, case, sp, (0.0, 0.0, s2), n2, False, max(1.0, abs(R), abs(s2)))


CHECK = C06()
