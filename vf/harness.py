"""Shared harness: one shape for all property checks.

A check module defines a subclass of `Check`:

    pid, title, rule (non-triviality rule, free text), assumptions
    strategy(tier)            -> Hypothesis strategy of JSON-able cases
    fixed_cases(tier)         -> iterable of JSON-able cases (finite enumerations)
    check(case, out)          -> fills `out` (an Outcome) with classes / clause results
    budget(tier)              -> (examples_per_shard, shards)

The harness
  * runs the Hypothesis search in `shards` forked workers, each with its own
    seed derived from VERIF_SEED (pure function of tree, seed, tier),
  * evaluates *all* clauses per case and buckets failures by clause
    (collect phase, no shrinking), then shrinks every new bucket separately
    under a wall-clock cap (the smallest failing case seen is kept even if
    the shrinker is cut short),
  * handles known findings (vf.known), writes replay files, evidence, and the
    VIOLATION / KNOWN-FINDING lines, and maps harness trouble to exit 2.
"""
import hashlib
import json
import math
import multiprocessing as mp
import multiprocessing.pool
import os
import sys
import time
import traceback

import numpy as np

HERE = os.path.dirname(os.path.dirname(os.path.abspath(__file__)))
REPO = os.environ.get('REPO_DIR', '/repo')


# ----------------------------------------------------------------------------
# JSON helpers
# ----------------------------------------------------------------------------

def jsonable(x):
    if isinstance(x, dict):
        return {str(k): jsonable(v) for k, v in x.items()}
    if isinstance(x, (list, tuple)):
        return [jsonable(v) for v in x]
    if isinstance(x, np.ndarray):
        return jsonable(x.tolist())
    if isinstance(x, (np.floating,)):
        return jsonable(float(x))
    if isinstance(x, (np.integer,)):
        return int(x)
    if isinstance(x, (np.bool_,)):
        return bool(x)
    if isinstance(x, float):
        if math.isnan(x):
            return 'nan'
        if math.isinf(x):
            return 'inf' if x > 0 else '-inf'
        return x
    if isinstance(x, complex):
        return {'re': jsonable(x.real), 'im': jsonable(x.imag)}
    if isinstance(x, (str, int, bool)) or x is None:
        return x
    return repr(x)


def unjson_float(v):
    """Inverse of jsonable for floats ('inf', '-inf', 'nan')."""
    if isinstance(v, str):
        if v == 'inf':
            return math.inf
        if v == '-inf':
            return -math.inf
        if v == 'nan':
            return math.nan
    return v


def case_hash(case):
    s = json.dumps(jsonable(case), sort_keys=True, separators=(',', ':'))
    return hashlib.sha1(s.encode()).hexdigest()


def case_size(case):
    return len(json.dumps(jsonable(case), separators=(',', ':')))


# ----------------------------------------------------------------------------
# Outcome of one case
# ----------------------------------------------------------------------------

class Outcome:
    """Collects everything observed for one generated case."""

    def __init__(self, known=None):
        self.classes = set()
        self.nontrivial = False
        self.fails = []          # (clause, detail)
        self.evals = {}          # clause -> count of evaluations
        self.regions = {}        # known-finding id -> count of weakened evaluations
        self.notes = {}
        self.known = known       # vf.known.Known or None

    # -- labels --------------------------------------------------------------
    def cls(self, *labels):
        for lab in labels:
            if lab:
                self.classes.add(str(lab))

    def nt(self, flag=True):
        if flag:
            self.nontrivial = True

    # -- clause evaluation -----------------------------------------------------
    def _count(self, clause):
        self.evals[clause] = self.evals.get(clause, 0) + 1

    def fail(self, clause, **detail):
        self._count(clause)
        self.fails.append((clause, jsonable(detail)))

    def ok(self, clause):
        self._count(clause)

    def expect(self, clause, cond, **detail):
        self._count(clause)
        if not bool(cond):
            self.fails.append((clause, jsonable(detail)))
            return False
        return True

    def close(self, clause, got, want, atol=0.0, rtol=0.0, scale=None, **detail):
        """|got-want| <= atol + rtol*scale elementwise; NaN/inf must match exactly."""
        self._count(clause)
        g = np.asarray(got, dtype=float)
        w = np.asarray(want, dtype=float)
        try:
            g, w = np.broadcast_arrays(g, w)
        except ValueError:
            self.fails.append((clause, jsonable(dict(detail, why='shape', got_shape=list(np.shape(got)),
                                                       want_shape=list(np.shape(want))))))
            return False
        sc = np.abs(w) if scale is None else np.asarray(scale, dtype=float)
        fin = np.isfinite(g) & np.isfinite(w)
        bad_nf = ~fin & ~((np.isnan(g) & np.isnan(w)) | (np.isinf(g) & np.isinf(w) & (np.sign(g) == np.sign(w))))
        with np.errstate(all='ignore'):
            err = np.where(fin, np.abs(g - w), 0.0)
            tol = atol + rtol * np.where(np.isfinite(sc), sc, 0.0)
            bad = (err > tol) & fin
        if np.any(bad) or np.any(bad_nf):
            idx = np.argwhere(bad | bad_nf)
            i0 = tuple(idx[0]) if idx.size else ()
            d = dict(detail, got=g[i0] if g.shape else float(g), want=w[i0] if w.shape else float(w),
                     index=list(map(int, i0)), max_err=float(np.max(err)) if err.size else 0.0,
                     atol=atol, rtol=rtol, n_bad=int(np.sum(bad | bad_nf)))
            self.fails.append((clause, jsonable(d)))
            return False
        return True

    def region(self, kf_id):
        """Count one evaluation that used the weakened relation of a known finding."""
        self.regions[kf_id] = self.regions.get(kf_id, 0) + 1

    def kf_open(self, kf_id):
        return self.known is not None and self.known.is_open(kf_id)


class HarnessError(Exception):
    pass


def _frames(tb):
    return traceback.extract_tb(tb)


def classify_exception(exc):
    """Return ('library', tag) if an optiland frame is on the stack, else ('harness', tag)."""
    frames = _frames(exc.__traceback__)
    lib = [f for f in frames if os.sep + 'optiland' + os.sep in f.filename and '/verif/' not in f.filename]
    if lib:
        f = lib[-1]
        return 'library', '%s@%s:%s' % (type(exc).__name__, os.path.basename(f.filename), f.name)
    f = frames[-1] if frames else None
    where = '%s:%s:%d' % (os.path.basename(f.filename), f.name, f.lineno) if f else '?'
    return 'harness', '%s@%s' % (type(exc).__name__, where)


# ----------------------------------------------------------------------------
# Check base class
# ----------------------------------------------------------------------------

class Check:
    pid = 'C00'
    title = ''
    rule = ''
    technique = 'property-based testing (Hypothesis) against an independent oracle'
    assumptions = []
    exhaustive = False

    def budget(self, tier):
        """(examples per shard, shards)"""
        return (100, 4) if tier == 'quick' else (1000, 16)

    def strategy(self, tier):
        return None

    def fixed_cases(self, tier):
        return []

    def check(self, case, out):
        raise NotImplementedError

    def describe(self, case):
        """Short form of a case for evidence samples."""
        return case

    # libraries exceptions inside check(): by default a violation of clause 'no_exception'
    library_exception_is_violation = True


def run_case(check, case, known):
    """Run one case; never raises for library faults (they become clause failures)."""
    out = Outcome(known)
    # code under test that draws from numpy's global generator (scipy's global optimisers, unseeded samplers) is made a
    # pure function of the case, in generated runs and in replays alike
    np.random.seed(int(case_hash(case)[:8], 16))
    try:
        check.check(case, out)
    except HarnessError:
        raise
    except Exception as exc:  # noqa
        kind, tag = classify_exception(exc)
        if kind == 'library' and check.library_exception_is_violation:
            out.fail('no_exception', exception=tag, message=str(exc)[:300])
        else:
            raise HarnessError('%s: %s\n%s' % (tag, exc, ''.join(traceback.format_exception(exc))[-3000:]))
    return out


class Stats:
    def __init__(self):
        self.evaluations = 0
        self.nontrivial_hashes = set()
        self.classes = {}
        self.clause_evals = {}
        self.regions = {}
        self.buckets = {}   # clause -> dict(case, detail, size, count)
        self.samples = []
        self.sample_hashes = set()
        self.harness_errors = []
        self.wall = 0.0
        self.truncated = False

    def add(self, check, case, out, keep_samples=4):
        self.evaluations += 1
        h = None
        if out.nontrivial:
            h = case_hash(case)
            self.nontrivial_hashes.add(h)
        for c in out.classes:
            self.classes[c] = self.classes.get(c, 0) + 1
        for c, n in out.evals.items():
            self.clause_evals[c] = self.clause_evals.get(c, 0) + n
        for c, n in out.regions.items():
            self.regions[c] = self.regions.get(c, 0) + n
        if out.nontrivial and len(self.samples) < keep_samples and h not in self.sample_hashes:
            self.sample_hashes.add(h)
            self.samples.append(jsonable(check.describe(case)))
        seen = set()
        for clause, detail in out.fails:
            if clause in seen:
                continue
            seen.add(clause)
            b = self.buckets.get(clause)
            sz = case_size(case)
            if b is None:
                self.buckets[clause] = dict(case=jsonable(case), detail=detail, size=sz, count=1)
            else:
                b['count'] += 1
                if sz < b['size']:
                    b.update(case=jsonable(case), detail=detail, size=sz)

    def merge(self, other):
        self.evaluations += other.evaluations
        self.nontrivial_hashes |= other.nontrivial_hashes
        for k, v in other.classes.items():
            self.classes[k] = self.classes.get(k, 0) + v
        for k, v in other.clause_evals.items():
            self.clause_evals[k] = self.clause_evals.get(k, 0) + v
        for k, v in other.regions.items():
            self.regions[k] = self.regions.get(k, 0) + v
        for s in other.samples:
            if len(self.samples) < 6:
                self.samples.append(s)
        for clause, b in other.buckets.items():
            mine = self.buckets.get(clause)
            if mine is None:
                self.buckets[clause] = dict(b)
            else:
                cnt = mine['count'] + b['count']
                if b['size'] < mine['size']:
                    mine.update(b)
                mine['count'] = cnt
        self.harness_errors += other.harness_errors
        self.truncated = self.truncated or other.truncated


def _hyp_settings(n, phases):
    from hypothesis import settings, HealthCheck
    return settings(max_examples=n, database=None, deadline=None, derandomize=False,
                    report_multiple_bugs=False, print_blob=False, phases=phases,
                    suppress_health_check=list(HealthCheck))


def shard_worker(args):
    """Runs in a forked process: collect phase for one shard."""
    check, tier, seed, shard, n, known, deadline = args
    import warnings
    warnings.filterwarnings('ignore')
    np.seterr(all='ignore')
    from hypothesis import given, seed as hseed, Phase
    stats = Stats()
    t0 = time.time()
    strat = check.strategy(tier)
    if strat is None or n <= 0:
        return stats

    class _Stop(Exception):
        pass

    @hseed(seed * 1000 + shard)
    @_hyp_settings(n, [Phase.generate])
    @given(strat)
    def collect(case):
        if time.time() > deadline:
            stats.truncated = True
            return
        out = run_case(check, case, known)
        stats.add(check, case, out)

    try:
        collect()
    except HarnessError as e:
        stats.harness_errors.append(str(e))
    except Exception as e:  # hypothesis internal trouble (health checks etc.)
        stats.harness_errors.append('hypothesis: %r\n%s' % (e, traceback.format_exc()[-2000:]))
    stats.wall = time.time() - t0
    return stats


def shrink_bucket(check, tier, seed, shard, n, known, clause, start_case, cap_s):
    """Re-find and shrink one failing clause.  Returns the smallest failing case seen."""
    from hypothesis import given, seed as hseed, Phase
    best = dict(case=start_case, size=case_size(start_case), detail=None)
    t_end = time.time() + cap_s
    strat = check.strategy(tier)
    if strat is None:
        return best

    @hseed(seed * 1000 + shard)
    @_hyp_settings(max(n, 1), [Phase.generate, Phase.shrink])
    @given(strat)
    def hunt(case):
        if time.time() > t_end:
            return
        out = run_case(check, case, known)
        for c, d in out.fails:
            if c == clause:
                sz = case_size(case)
                if sz <= best['size'] or best['detail'] is None:
                    best.update(case=jsonable(case), size=sz, detail=d)
                raise AssertionError(clause)

    try:
        hunt()
    except BaseException:  # noqa  (AssertionError / Flaky when cut short)
        pass
    return best


def _shrink_worker(args):
    return shrink_bucket(*args)


# ----------------------------------------------------------------------------
# Main driver
# ----------------------------------------------------------------------------

def write_replay(pid, clause, case, detail):
    d = os.path.join(HERE, 'replay')
    os.makedirs(d, exist_ok=True)
    safe = ''.join(ch if ch.isalnum() or ch in '-_' else '_' for ch in clause)[:60]
    path = os.path.join(d, '%s-%s-%s.json' % (pid, safe, case_hash(case)[:10]))
    with open(path, 'w') as f:
        json.dump(dict(property=pid, clause=clause, case=jsonable(case), detail=detail), f, indent=1, sort_keys=True)
    return path


def write_evidence(check, tier, seed, stats, wall, violations, known_lines, extra=None):
    cov = dict(
        evaluations=int(stats.evaluations),
        distinct_nontrivial=int(len(stats.nontrivial_hashes)),
        rule=check.rule,
        samples=stats.samples[:6],
        exhaustive=bool(check.exhaustive),
        class_histogram=dict(sorted(stats.classes.items())),
        clause_evaluations=dict(sorted(stats.clause_evals.items())),
        excluded_by_region=dict(sorted(stats.regions.items())),
        known_findings_seen=known_lines,
        failing_clauses={k: v['count'] for k, v in stats.buckets.items()},
        truncated_by_time_budget=bool(stats.truncated),
    )
    if extra:
        cov.update(extra)
    ev = dict(property_id=check.pid, tier=tier, seed=int(seed), level='exploration', coverage=cov,
              assumptions=list(check.assumptions), wall_s=round(wall, 2), violations=int(violations))
    d = os.path.join(HERE, 'evidence')
    os.makedirs(d, exist_ok=True)
    tmp = os.path.join(d, '%s.json.tmp' % check.pid)
    with open(tmp, 'w') as f:
        json.dump(jsonable(ev), f, indent=1, sort_keys=True)
    os.replace(tmp, os.path.join(d, '%s.json' % check.pid))


class _NoDaemonProcess(mp.get_context('fork').Process):
    """shard workers may start worker processes of their own (scipy's differential_evolution with workers != 1 does);
    daemonic processes are not allowed to"""
    @property
    def daemon(self):
        return False

    @daemon.setter
    def daemon(self, value):
        pass


class _NoDaemonContext(type(mp.get_context('fork'))):
    Process = _NoDaemonProcess


class _Ctx:
    @staticmethod
    def Pool(n):
        return multiprocessing.pool.Pool(n, context=_NoDaemonContext())


def run_check(check, tier, seed, workers=None, time_cap=None):
    from vf.known import Known
    t0 = time.time()
    known = Known(check.pid)
    known_lines = []
    # 1. reproducers of known findings, at full strength
    for ent in known.entries():
        if ent.get('status') == 'fixed':
            continue
        out = Outcome(None)
        try:
            case = ent['reproducer']
            out = run_case(check, case, None)
        except HarnessError as e:
            print('HARNESS-ERROR in known-finding reproducer %s: %s' % (ent['id'], e))
            return 2
        hit = [c for c, _ in out.fails if c == ent['clause'] or c.startswith(ent['clause'])]
        if hit:
            known.confirm(ent['id'])
            line = 'KNOWN-FINDING: property=%s id=%s %s' % (check.pid, ent['id'], ent['what'])
            print(line)
            known_lines.append(line)
        else:
            print('NOTE: known finding %s no longer reproduces; its region is checked at full strength' % ent['id'])

    n, shards = check.budget(tier)
    if workers is None:
        workers = min(shards, int(os.environ.get('VERIF_WORKERS', '16' if tier == 'thorough' else '8')))
    cap = time_cap or float(os.environ.get('VERIF_TIME_CAP', '900' if tier == 'quick' else '14400'))
    deadline = t0 + cap
    total = Stats()
    # 2. fixed (enumerated) cases, in this process or sharded
    fixed = list(check.fixed_cases(tier))
    # reproducers of repaired findings are ordinary regression cases (they suppress nothing)
    fixed += [e['reproducer'] for e in known.entries() if e.get('status') == 'fixed' and e.get('reproducer')]
    ctx = _Ctx
    if fixed:
        chunks = [fixed[i::workers] for i in range(workers)] if len(fixed) > 2 * workers else [fixed]
        if len(chunks) == 1:
            res = [_fixed_worker((check, chunks[0], known, deadline))]
        else:
            with ctx.Pool(len(chunks)) as pool:
                res = pool.map(_fixed_worker, [(check, ch, known, deadline) for ch in chunks])
        for s in res:
            total.merge(s)
    # 3. generated cases
    if n > 0 and check.strategy(tier) is not None:
        jobs = [(check, tier, seed, sh, n, known, deadline) for sh in range(shards)]
        if workers <= 1 or shards == 1:
            res = [shard_worker(j) for j in jobs]
        else:
            with ctx.Pool(workers) as pool:
                res = pool.map(shard_worker, jobs, chunksize=1)
        shard_of = {}
        for sh, s in enumerate(res):
            for clause in s.buckets:
                shard_of.setdefault(clause, sh)
            total.merge(s)
    else:
        shard_of = {}

    # 3b. optional extra campaign of the check (e.g. coverage-guided fuzzing)
    extra_info = None
    extra_viol = []
    if hasattr(check, 'extra_campaign'):
        try:
            extra_info = check.extra_campaign(tier, seed)
        except Exception as e:  # noqa
            total.harness_errors.append('extra campaign: %r\n%s' % (e, traceback.format_exc()[-2000:]))
        if extra_info:
            extra_viol = extra_info.pop('violations', [])

    if total.harness_errors:
        print('HARNESS-ERROR (%d):' % len(total.harness_errors))
        print(total.harness_errors[0][:4000])
        write_evidence(check, tier, seed, total, time.time() - t0, 0, known_lines,
                       extra=dict(harness_errors=len(total.harness_errors)))
        return 2

    # 4. shrink new buckets
    violations = []
    new = {c: b for c, b in total.buckets.items()}
    shrink_cap = float(os.environ.get('VERIF_SHRINK_CAP', '60' if tier == 'quick' else '240'))
    jobs = []
    for clause, b in new.items():
        if clause in shard_of and os.environ.get('VERIF_NO_SHRINK') != '1':
            jobs.append((check, tier, seed, shard_of[clause], n, known, clause, b['case'], shrink_cap))
    shrunk = {}
    if jobs:
        with ctx.Pool(min(len(jobs), 16)) as pool:
            for j, r in zip(jobs, pool.map(_shrink_worker, jobs, chunksize=1)):
                shrunk[j[6]] = r
    for clause, b in new.items():
        case, detail = b['case'], b['detail']
        r = shrunk.get(clause)
        if r and r.get('detail') is not None and r['size'] <= b['size']:
            case, detail = r['case'], r['detail']
        path = write_replay(check.pid, clause, case, detail)
        violations.append((clause, path, detail, b['count']))

    for clause, path, detail in extra_viol:
        violations.append((clause, path, detail, 1))
    # 5. sanity: clauses never evaluated / no non-trivial cases => harness trouble, not success
    wall = time.time() - t0
    write_evidence(check, tier, seed, total, wall, len(violations), known_lines,
                   extra=dict(extra_campaign=extra_info) if extra_info else None)
    for clause, path, detail, count in violations:
        print('VIOLATION property=%s replay=%s' % (check.pid, os.path.relpath(path, HERE)))
        print('  clause=%s cases=%d detail=%s' % (clause, count, json.dumps(detail)[:600]))
    print('%s tier=%s seed=%d evaluations=%d distinct_nontrivial=%d classes=%d violations=%d wall=%.1fs%s' % (
        check.pid, tier, seed, total.evaluations, len(total.nontrivial_hashes), len(total.classes),
        len(violations), wall, ' (time budget hit: inconclusive beyond this)' if total.truncated else ''))
    if violations:
        return 1
    if total.evaluations == 0 or len(total.nontrivial_hashes) < 2:
        print('HARNESS-ERROR: vacuous run (evaluations=%d, nontrivial=%d)' % (
            total.evaluations, len(total.nontrivial_hashes)))
        return 2
    return 0


def _fixed_worker(args):
    check, cases, known, deadline = args
    import warnings
    warnings.filterwarnings('ignore')
    np.seterr(all='ignore')
    stats = Stats()
    for case in cases:
        if time.time() > deadline:
            stats.truncated = True
            break
        try:
            out = run_case(check, case, known)
        except HarnessError as e:
            stats.harness_errors.append(str(e))
            break
        stats.add(check, case, out)
    return stats


def replay(check, path):
    from vf.known import Known
    with open(path) as f:
        data = json.load(f)
    case = data['case']
    known = Known(check.pid)
    for ent in known.entries():
        if ent.get('status') != 'fixed':
            try:
                o = run_case(check, ent['reproducer'], None)
                if any(c == ent['clause'] for c, _ in o.fails):
                    known.confirm(ent['id'])
            except HarnessError:
                pass
    try:
        out = run_case(check, case, known)
    except HarnessError as e:
        print('HARNESS-ERROR: %s' % e)
        return 2
    if out.fails:
        print('VIOLATION property=%s replay=%s' % (check.pid, path))
        for clause, detail in out.fails[:10]:
            print('  clause=%s detail=%s' % (clause, json.dumps(detail)[:600]))
        return 1
    print('%s replay passed (%d clause evaluations)' % (check.pid, sum(out.evals.values())))
    return 0
