import argparse
import importlib
import os
import sys
import traceback


def main(argv=None):
    ap = argparse.ArgumentParser()
    ap.add_argument('pid')
    ap.add_argument('--tier', default=os.environ.get('VERIF_TIER', 'quick'), choices=['quick', 'thorough'])
    ap.add_argument('--seed', type=int, default=None)
    ap.add_argument('--replay', default=None)
    ap.add_argument('--workers', type=int, default=None)
    args = ap.parse_args(argv)
    seed = args.seed if args.seed is not None else int(os.environ.get('VERIF_SEED', '1') or 1)
    try:
        import numpy as np
        np.seterr(all='ignore')
        import warnings
        warnings.filterwarnings('ignore')
        mod = importlib.import_module('vf.checks.%s' % args.pid.lower())
        check = mod.CHECK
        from vf import harness
        if args.replay:
            return harness.replay(check, args.replay)
        return harness.run_check(check, args.tier, seed, workers=args.workers)
    except SystemExit:
        raise
    except BaseException:  # noqa
        print('HARNESS-ERROR: %s' % traceback.format_exc()[-4000:])
        return 2


if __name__ == '__main__':
    sys.exit(main())
