"""Coverage-guided campaign for C20: libFuzzer (Atheris) mutates byte strings that a FuzzedDataProvider decodes into
a prescription (never rejecting); the oracle of vf.checks.c20 runs inside the target.  A failing input is written as a replay file
(JSON case) and the process exits 77 after printing one FUZZ-VIOLATION line per failing clause."""
import json
import os
import sys

import atheris

with atheris.instrument_imports(include=['optiland.fileio']):
    import optiland.fileio.zemax_handler  # noqa
    import optiland.fileio.converters  # noqa

import numpy as np  # noqa

from vf import harness  # noqa
from vf.known import Known  # noqa
from vf.checks.c20 import CHECK  # noqa
from vf.gen import lens as GL  # noqa

STATE = dict(n=0, nontrivial=set(), classes={}, fails=[])
KNOWN = Known('C20')


def decode(data):
    """bytes -> prescription case (same structure as the Hypothesis strategy), never rejects"""
    fdp = atheris.FuzzedDataProvider(data)
    glasses = [g for g in GL.glasses() if ' ' not in g['name']]

    def fl(lo, hi):
        return fdp.ConsumeFloatInRange(lo, hi)

    def pick(seq):
        return seq[fdp.ConsumeIntInRange(0, len(seq) - 1)]
    nsurf = fdp.ConsumeIntInRange(1, 28)
    surfs = []
    for _ in range(nsurf):
        gk = fdp.ConsumeIntInRange(0, 3)
        if gk <= 1:
            glass = None
        elif gk == 2:
            g = pick(glasses)
            glass = dict(name=g['name'], file=g['file'], known=True, nd=1.6, vd=50.0)
        else:
            glass = dict(name='ZQX%02dW' % fdp.ConsumeIntInRange(0, 99), known=False, nd=round(fl(1.45, 1.85), 6),
                         vd=round(fl(25.0, 65.0), 4))
        c = pick([0.0, fl(-0.05, 0.05), fl(-0.2, 0.2)])
        if abs(c) < 1e-6:
            c = 0.0
        surfs.append(dict(type=pick(['STANDARD', 'STANDARD', 'EVENASPH']), curv=c, disz=fl(0.0, 40.0),
                          conic=pick([0.0, 0.0, -1.0, 0.5, -2.3]),
                          parms=[pick([0.0, fl(-1e-5, 1e-5)]) for _ in range(8)], glass=glass))
    ap = pick([('ENPD', fl(0.5, 20.0)), ('FNUM', fl(1.5, 20.0)), ('OBNA', fl(0.01, 0.3))])
    nf = fdp.ConsumeIntInRange(1, 12)
    fields = sorted({round(fl(0.0, 20.0), 6) for _ in range(nf)})
    nw = fdp.ConsumeIntInRange(1, 12)
    wls = [round(fl(0.45, 0.70), 7) for _ in range(nw)]
    return dict(mode=pick(['SEQ'] * 9 + ['NSC']), ap=list(ap), ftype=pick([0, 0, 1]), fields_y=fields, wls=wls,
                prim=fdp.ConsumeIntInRange(0, 11), stop=fdp.ConsumeIntInRange(0, 40), obj_inf=fdp.ConsumeBool(),
                obj_t=fl(5.0, 500.0), surfs=surfs, img_curv=pick([0.0, 0.0, 0.0, -0.01]),
                fmt=pick(['g', 'E', 'zemax']), enc=pick(['utf-8', 'utf-16']),
                gcat=pick([None, ['SCHOTT'], ['SCHOTT', 'OHARA', 'HOYA']]),
                head=pick(['vers', 'vers', 'mode_first', 'ap_first']))


def target(data):
    case = decode(data)
    out = harness.run_case(CHECK, case, KNOWN)
    STATE['n'] += 1
    if out.nontrivial:
        STATE['nontrivial'].add(harness.case_hash(case))
    for c in out.classes:
        STATE['classes'][c] = STATE['classes'].get(c, 0) + 1
    if out.fails:
        for clause, detail in out.fails[:3]:
            path = harness.write_replay('C20', 'fuzz-' + clause, case, detail)
            print('FUZZ-VIOLATION clause=%s replay=%s' % (clause, os.path.relpath(path, harness.HERE)), flush=True)
        dump()
        os._exit(77)


def dump():
    p = os.environ.get('VF_FUZZ_STATS')
    if p:
        with open(p, 'w') as f:
            json.dump(dict(evaluations=STATE['n'], distinct_nontrivial=len(STATE['nontrivial']),
                           classes=STATE['classes']), f)


def main():
    import warnings
    warnings.filterwarnings('ignore')
    np.seterr(all='ignore')
    runs = int(os.environ.get('VF_FUZZ_RUNS', '2000'))

    def one(data):
        target(data)
        if STATE['n'] % 200 == 0:
            dump()
    atheris.Setup(sys.argv, one)
    try:
        atheris.Fuzz()
    finally:
        dump()


if __name__ == '__main__':
    main()
