"""Surface shapes (sag + analytic gradient) and frame transforms, written from the documented
sag equations; independent of optiland.geometries.

Frame convention (the library's documented decentre/tilt parameters dx, dy, rx, ry, no rz):
    p_global = o + Rx(rx) @ Ry(ry) @ p_local ,   o = (dx, dy, z_vertex)
"""
import math

import numpy as np


def rot_x(a):
    c, s = math.cos(a), math.sin(a)
    return np.array([[1, 0, 0], [0, c, -s], [0, s, c]], dtype=float)


def rot_y(a):
    c, s = math.cos(a), math.sin(a)
    return np.array([[c, 0, s], [0, 1, 0], [-s, 0, c]], dtype=float)


class Frame:
    def __init__(self, dx, dy, z, rx, ry):
        self.o = np.array([dx, dy, z], dtype=float)
        self.R = rot_x(rx) @ rot_y(ry)      # local -> global

    def to_local_point(self, P):
        """P: (3, n) global points"""
        return self.R.T @ (P - self.o[:, None])

    def to_local_dir(self, D):
        return self.R.T @ D

    def to_global_point(self, P):
        return self.R @ P + self.o[:, None]

    def to_global_dir(self, D):
        return self.R @ D


def cheb_T(n, x):
    """Chebyshev polynomial of the first kind by the three-term recurrence."""
    x = np.asarray(x, dtype=float)
    t0 = np.ones_like(x)
    if n == 0:
        return t0
    t1 = x
    for _ in range(n - 1):
        t0, t1 = t1, 2 * x * t1 - t0
    return t1


def cheb_dT(n, x):
    """dT_n/dx = n U_{n-1}(x), U by recurrence."""
    x = np.asarray(x, dtype=float)
    if n == 0:
        return np.zeros_like(x)
    u0 = np.ones_like(x)
    if n == 1:
        return u0
    u1 = 2 * x
    for _ in range(n - 2):
        u0, u1 = u1, 2 * x * u1 - u0
    return n * u1


class Shape:
    """z = conic(r) + extra terms"""

    def __init__(self, typ, R, k=0.0, coef=None, norm=None):
        self.typ = typ
        self.R = float(R)
        self.c = 0.0 if math.isinf(self.R) else 1.0 / self.R
        self.k = float(k)
        self.coef = coef
        self.norm = norm
        self.closed_form = typ == 'standard'
        # known finding C02-chebyshev-normal: the library omits the chain-rule factor 1/norm in the gradient.
        # When set, the gradient reproduces that (weakened relation inside the finding's region only).
        self.cheb_omit_chain_rule = False

    def conic_sag(self, x, y):
        r2 = x * x + y * y
        c, k = self.c, self.k
        with np.errstate(all='ignore'):
            root = np.sqrt(1 - (1 + k) * c * c * r2)
            return c * r2 / (1 + root)

    def conic_grad(self, x, y):
        r2 = x * x + y * y
        c, k = self.c, self.k
        with np.errstate(all='ignore'):
            root = np.sqrt(1 - (1 + k) * c * c * r2)
            return c * x / root, c * y / root

    def sag(self, x, y):
        z = self.conic_sag(x, y)
        if self.typ == 'even_asphere':
            r2 = x * x + y * y
            for i, a in enumerate(self.coef or []):
                z = z + a * r2 ** (i + 1)
        elif self.typ == 'polynomial':
            for i, row in enumerate(self.coef or []):
                for j, a in enumerate(row):
                    if a:
                        z = z + a * x ** i * y ** j
        elif self.typ == 'chebyshev':
            xn, yn = x / self.norm, y / self.norm
            for i, row in enumerate(self.coef or []):
                for j, a in enumerate(row):
                    if a:
                        z = z + a * cheb_T(i, xn) * cheb_T(j, yn)
        return z

    def grad(self, x, y):
        gx, gy = self.conic_grad(x, y)
        if self.typ == 'even_asphere':
            r2 = x * x + y * y
            for i, a in enumerate(self.coef or []):
                f = a * 2 * (i + 1) * r2 ** i
                gx = gx + f * x
                gy = gy + f * y
        elif self.typ == 'polynomial':
            for i, row in enumerate(self.coef or []):
                for j, a in enumerate(row):
                    if not a:
                        continue
                    if i >= 1:
                        gx = gx + a * i * x ** (i - 1) * y ** j
                    if j >= 1:
                        gy = gy + a * j * x ** i * y ** (j - 1)
        elif self.typ == 'chebyshev':
            xn, yn = x / self.norm, y / self.norm
            for i, row in enumerate(self.coef or []):
                for j, a in enumerate(row):
                    if not a:
                        continue
                    q = 1.0 if self.cheb_omit_chain_rule else self.norm
                    gx = gx + a * cheb_dT(i, xn) / q * cheb_T(j, yn)
                    gy = gy + a * cheb_T(i, xn) * cheb_dT(j, yn) / q
        return gx, gy

    def normal(self, x, y):
        """unit normal (3,n) with negative z component: (gx, gy, -1)/|.|"""
        gx, gy = self.grad(x, y)
        m = np.sqrt(gx * gx + gy * gy + 1)
        return np.array([gx / m, gy / m, -1 / m])

    def implicit(self, P):
        """conic only: F = c (x^2 + y^2 + (1+k) z^2) - 2 z   (zero on the whole quadric)"""
        x, y, z = P
        return self.c * (x * x + y * y + (1 + self.k) * z * z) - 2 * z

    def intersect_conic(self, P, D):
        """closed-form shapes: roots t of the ray P + t D with the quadric.
        Returns (t_a, t_b) arrays (nan where no real root)."""
        x, y, z = P
        L, M, N = D
        c, k = self.c, self.k
        with np.errstate(all='ignore'):
            if c == 0:
                t = -z / N
                return t, np.full_like(t, np.nan)
            A = c * (L * L + M * M + (1 + k) * N * N)
            B = 2 * c * (x * L + y * M + (1 + k) * z * N) - 2 * N
            C = c * (x * x + y * y + (1 + k) * z * z) - 2 * z
            disc = B * B - 4 * A * C
            sq = np.sqrt(disc)
            ta = np.where(A != 0, (-B + sq) / (2 * A), -C / B)
            tb = np.where(A != 0, (-B - sq) / (2 * A), np.nan)
            return ta, tb

    def on_sag_sheet(self, P):
        """True where a point of the quadric belongs to the sheet described by the sag formula."""
        x, y, z = P
        return (1 - (1 + self.k) * self.c * z) >= 0


def shape_of(s):
    from vf.gen.lens import fl
    return Shape(s['type'], fl(s['R']), s.get('k', 0.0), s.get('coef'), s.get('norm'))


def frame_of(s, z):
    return Frame(s.get('dx', 0.0), s.get('dy', 0.0), z, s.get('rx', 0.0), s.get('ry', 0.0))
