"""Independent evaluation of refractiveindex.info data files.

Written from the database's "Dispersion formulas" sheet, not from optiland.
Coefficients are zero padded as the reference implementation of the database
does (missing trailing coefficients are zero).
"""
import csv
import io
import os

import numpy as np
import yaml

REPO = os.environ.get('REPO_DIR', '/repo')
DB = os.path.join(REPO, 'database')


def catalogue_rows():
    rows = []
    with open(os.path.join(DB, 'catalog_nk.csv'), newline='', encoding='utf-8') as f:
        for i, r in enumerate(csv.DictReader(f)):
            r['row'] = i
            r['min_wavelength'] = float(r['min_wavelength'])
            r['max_wavelength'] = float(r['max_wavelength'])
            rows.append(r)
    return rows


def load_entry(filename):
    """-> dict(n_kind, coeffs, n_tab (wl,n) or None, k_tab (wl,k) or None, n_defs)"""
    path = os.path.join(DB, 'data-nk', filename)
    with open(path, 'r') as f:
        data = yaml.safe_load(f)
    ent = dict(n_kind=None, coeffs=None, n_tab=None, k_tab=None, n_defs=0, range=None)
    for sub in data['DATA']:
        t = sub['type']
        if t.startswith('formula '):
            ent['n_defs'] += 1
            if ent['n_kind'] is None:
                ent['n_kind'] = t
                ent['coeffs'] = [float(x) for x in str(sub['coefficients']).split()]
                if 'wavelength_range' in sub:
                    ent['range'] = [float(x) for x in str(sub['wavelength_range']).split()]
        elif t.startswith('tabulated'):
            arr = np.atleast_2d(np.loadtxt(io.StringIO(sub['data'])))
            if t == 'tabulated n':
                ent['n_defs'] += 1
                if ent['n_kind'] is None:
                    ent['n_kind'] = t
                    ent['n_tab'] = (arr[:, 0], arr[:, 1])
            elif t == 'tabulated k':
                ent['k_tab'] = (arr[:, 0], arr[:, 1])
            elif t == 'tabulated nk':
                ent['n_defs'] += 1
                if ent['n_kind'] is None:
                    ent['n_kind'] = t
                    ent['n_tab'] = (arr[:, 0], arr[:, 1])
                ent['k_tab'] = (arr[:, 0], arr[:, 2])
    return ent


def _pad(c, n):
    c = list(c)
    return c + [0.0] * max(0, n - len(c))


def formula_n(kind, coeffs, w):
    w = np.asarray(w, dtype=float)
    num = int(kind.split()[1])
    with np.errstate(all='ignore'):
        if num == 1:
            c = _pad(coeffs, len(coeffs) + (1 - len(coeffs) % 2) % 2)
            if len(c) % 2 == 0:
                c = c + [0.0]
            n2 = 1 + c[0]
            for i in range(1, len(c) - 1, 2):
                n2 = n2 + c[i] * w ** 2 / (w ** 2 - c[i + 1] ** 2)
            return np.sqrt(n2)
        if num == 2:
            c = list(coeffs)
            if len(c) % 2 == 0:
                c = c + [0.0]
            n2 = 1 + c[0]
            for i in range(1, len(c) - 1, 2):
                n2 = n2 + c[i] * w ** 2 / (w ** 2 - c[i + 1])
            return np.sqrt(n2)
        if num == 3:
            c = list(coeffs)
            if len(c) % 2 == 0:
                c = c + [0.0]
            n2 = c[0] + 0 * w
            for i in range(1, len(c) - 1, 2):
                n2 = n2 + c[i] * w ** c[i + 1]
            return np.sqrt(n2)
        if num == 4:
            c = _pad(coeffs, 9)
            if len(c) % 2 == 0:
                c = c + [0.0]
            n2 = c[0] + c[1] * w ** c[2] / (w ** 2 - c[3] ** c[4]) + c[5] * w ** c[6] / (w ** 2 - c[7] ** c[8])
            for i in range(9, len(c) - 1, 2):
                n2 = n2 + c[i] * w ** c[i + 1]
            return np.sqrt(n2)
        if num == 5:
            c = list(coeffs)
            if len(c) % 2 == 0:
                c = c + [0.0]
            n = c[0] + 0 * w
            for i in range(1, len(c) - 1, 2):
                n = n + c[i] * w ** c[i + 1]
            return n
        if num == 6:
            c = list(coeffs)
            if len(c) % 2 == 0:
                c = c + [0.0]
            n = 1 + c[0] + 0 * w
            for i in range(1, len(c) - 1, 2):
                n = n + c[i] / (c[i + 1] - w ** -2)
            return n
        if num == 7:
            c = _pad(coeffs, 6)
            L = 1.0 / (w ** 2 - 0.028)
            return c[0] + c[1] * L + c[2] * L ** 2 + c[3] * w ** 2 + c[4] * w ** 4 + c[5] * w ** 6
        if num == 8:
            c = _pad(coeffs, 4)
            b = c[0] + c[1] * w ** 2 / (w ** 2 - c[2]) + c[3] * w ** 2
            return np.sqrt((1 + 2 * b) / (1 - b))
        if num == 9:
            c = _pad(coeffs, 6)
            n2 = c[0] + c[1] / (w ** 2 - c[2]) + c[3] * (w - c[4]) / ((w - c[4]) ** 2 + c[5])
            return np.sqrt(n2)
    raise ValueError(kind)


def lin_interp(w, xs, ys):
    """Linear interpolation written out (not np.interp): xs ascending; clamps outside."""
    w = np.atleast_1d(np.asarray(w, dtype=float))
    xs = np.asarray(xs, dtype=float)
    ys = np.asarray(ys, dtype=float)
    out = np.empty_like(w)
    for j, wj in enumerate(w):
        if wj <= xs[0]:
            out[j] = ys[0]
        elif wj >= xs[-1]:
            out[j] = ys[-1]
        else:
            i = int(np.searchsorted(xs, wj, side='right')) - 1
            x0, x1 = xs[i], xs[i + 1]
            if x1 == x0:
                out[j] = ys[i + 1]
            else:
                out[j] = ys[i] + (ys[i + 1] - ys[i]) * (wj - x0) / (x1 - x0)
    return out


def ref_n(ent, w):
    if ent['n_kind'] is None:
        raise LookupError('no n relation')
    if ent['n_kind'].startswith('formula'):
        return np.atleast_1d(formula_n(ent['n_kind'], ent['coeffs'], w))
    return lin_interp(w, *ent['n_tab'])


def ref_k(ent, w):
    if ent['k_tab'] is None:
        raise LookupError('no k table')
    return lin_interp(w, *ent['k_tab'])
