"""Per-surface law checker for a recorded real ray trace.  Independent of optiland's geometry code.

Given the arrays recorded by SurfaceGroup (x,y,z,L,M,N,opd at every surface, index 0 = launch record)
and the LensSpec, verify at every surface k>=1 and for every ray:
  on_surface   local z - sag_ref(x,y) == 0
  unit_dir     |d_out| == 1
  segment      p_k - p_{k-1} is parallel to d_{k-1}, forward (t >= 0)
  snell        (n2 d_out - n1 d_in) x n_hat == 0 and same side of the surface  (refraction)
  reflect      d_out == d_in - 2 (d_in . n_hat) n_hat                             (mirror)
  opl          opd_k - opd_{k-1} == n1 * |p_k - p_{k-1}|
  nonfinite    rays whose reference intersection / refraction does not exist are non-finite, rays for which it
               clearly exists are finite (closed-form shapes only), and a non-finite ray never becomes finite again.
"""
import math

import numpy as np

from vf.gen import lens as GL
from vf.ref.geometry import shape_of, frame_of


def records(o):
    sg = o.surface_group
    keys = ['x', 'y', 'z', 'L', 'M', 'N', 'opd', 'intensity']
    rec = {}
    for key in keys:
        rec[key] = [np.array(getattr(s, key), dtype=float).ravel().copy() for s in sg.surfaces]
    return rec


def vertex_z(spec):
    z = [0.0]
    for s in spec['surfs']:
        z.append(z[-1] + float(s['t']))
    return z          # z[k-1] for surface k (k=1..K+1)


def surface_models(spec):
    """[(shape, frame, is_mirror)] for surfaces 1..K+1"""
    z = vertex_z(spec)
    out = []
    for i, s in enumerate(spec['surfs']):
        out.append((shape_of(s), frame_of(s, z[i]), s['mat']['kind'] == 'mirror', s))
    img = dict(type='standard', R='inf', k=0.0)
    img.update(spec.get('img', {}).get('shape') or {})
    out.append((shape_of(img), frame_of({}, z[-1]), False, img))
    return out


def check_trace(out, spec, rec, w, tag='', tol_scale=1.0, check_nonfinite=True, ns=None, parabola_kf=None):
    """Evaluate all clauses on one recorded trace.  `w` wavelength in um (scalar).  Returns dict of stats."""
    if ns is None:
        ns, _ = GL.media(spec, w)
    models = surface_models(spec)
    nsurf = len(models) + 1
    stats = dict(valid_rays=0, tir=0, miss=0, max_aoi=0.0, powered_hits=0, skew=False)
    if len(rec['x']) != nsurf:
        out.fail('record_count', got=len(rec['x']), want=nsurf)
        return stats
    nr = len(rec['x'][0])
    P_prev = np.array([rec['x'][0], rec['y'][0], rec['z'][0]])
    D_prev = np.array([rec['L'][0], rec['M'][0], rec['N'][0]])
    opd_prev = rec['opd'][0]
    alive = np.all(np.isfinite(P_prev), axis=0) & np.all(np.isfinite(D_prev), axis=0)
    Ltot = max(1.0, sum(abs(float(s['t'])) for s in spec['surfs']))
    if np.any(alive) and np.any((D_prev[0] != 0) & alive):
        stats['skew'] = True
    for k, (shape, frame, is_mirror, sdict) in enumerate(models, start=1):
        if shape.typ == 'chebyshev' and shape.norm != 1 and out.kf_open('C02-chebyshev-normal'):
            shape.cheb_omit_chain_rule = True
            out.region('C02-chebyshev-normal')
        P = np.array([rec['x'][k], rec['y'][k], rec['z'][k]])
        D = np.array([rec['L'][k], rec['M'][k], rec['N'][k]])
        opd = rec['opd'][k]
        if P.shape[1] != nr:
            out.fail('record_shape', surface=k, got=P.shape[1], want=nr)
            return stats
        fin = np.all(np.isfinite(P), axis=0) & np.all(np.isfinite(D), axis=0) & np.isfinite(opd)
        # a dead ray never comes back
        zombie = fin & ~alive
        out.expect('nonfinite_stays_nonfinite' + tag, not np.any(zombie), surface=k, rays=np.where(zombie)[0][:5])
        n1, n2 = ns[k - 1], ns[k]
        Pl_prev = frame.to_local_point(P_prev)
        Dl_in = frame.to_local_dir(D_prev)
        Lk = max(1.0, min(abs(shape.R), 1e6) if shape.c != 0 else 1.0)
        good = fin & alive
        if np.any(good):
            g = np.where(good)[0]
            Pl = frame.to_local_point(P[:, g])
            Dl = frame.to_local_dir(D[:, g])
            Din = Dl_in[:, g]
            scale_p = np.maximum(np.maximum(np.max(np.abs(Pl), axis=0), Lk), np.max(np.abs(Pl_prev[:, g]), axis=0))
            # known finding <parabola_kf>: the conic root (-b - sqrt(b^2-4ac))/(2a), a = c (L^2+M^2+(1+k)N^2), loses
            # ~1e-15/|a| of the distance along the ray when |1+k| << 1 and the ray is almost axial.  Inside that region
            # the clauses of this surface are weakened by exactly that displacement along the ray.
            terr = np.zeros(len(g))
            if parabola_kf and shape.typ == 'standard' and shape.c != 0 and abs(1 + shape.k) < 0.05 and \
                    out.kf_open(parabola_kf):
                with np.errstate(all='ignore'):
                    a_dir = np.abs(shape.c * (Din[0] ** 2 + Din[1] ** 2 + (1 + shape.k) * Din[2] ** 2))
                    terr = np.where((a_dir > 0) & (a_dir < 1e-4 * abs(shape.c)), 1e-15 / a_dir, 0.0)
                if np.any(terr > 0):
                    out.region(parabola_kf)
            # (1) on the prescribed shape
            res = Pl[2] - shape.sag(Pl[0], Pl[1])
            if shape.closed_form:
                tol = 1e-9 * scale_p * tol_scale + terr
            else:
                tol = np.full_like(res, 10 * float(sdict.get('tol') or 1e-6))
            bad = ~(np.abs(res) <= tol)
            out.expect('on_surface' + tag, not np.any(bad), surface=k, shape=shape.typ, residual=res[bad][:3],
                       tol=tol[bad][:3], rays=g[bad][:3], local=Pl[:, bad][:, :1])
            # (2) unit length
            nrm = np.sqrt(np.sum(Dl * Dl, axis=0))
            out.expect('unit_direction' + tag, np.all(np.abs(nrm - 1) <= 1e-11 * tol_scale), surface=k,
                       worst=float(np.max(np.abs(nrm - 1))))
            # (3) the segment from the previous record follows the previous direction, forwards
            seg = P[:, g] - P_prev[:, g]
            seglen = np.sqrt(np.sum(seg * seg, axis=0))
            along = np.sum(seg * D_prev[:, g], axis=0)
            cr = np.cross(seg.T, D_prev[:, g].T).T
            crn = np.sqrt(np.sum(cr * cr, axis=0))
            segtol = 1e-9 * (seglen + Ltot) * tol_scale + (0 if shape.closed_form else 10 * float(sdict.get('tol') or 1e-6))
            bad = ~((crn <= segtol) & (along >= -segtol))
            out.expect('segment_follows_direction' + tag, not np.any(bad), surface=k, cross=crn[bad][:3],
                       along=along[bad][:3], rays=g[bad][:3])
            # (4) Snell / reflection with my own normal
            nh = shape.normal(Pl[0], Pl[1])
            cos_i = np.sum(Din * nh, axis=0)
            cos_o = np.sum(Dl * nh, axis=0)
            if is_mirror:
                want = Din - 2 * cos_i * nh
                err = np.sqrt(np.sum((Dl - want) ** 2, axis=0))
                bad = ~(err <= 1e-9 * tol_scale + 4 * abs(shape.c) * terr)
                out.expect('reflection_law' + tag, not np.any(bad), surface=k, err=err[bad][:3], rays=g[bad][:3])
                out.expect('mirror_half_space' + tag, np.all(cos_i * cos_o <= 1e-12), surface=k)
            else:
                v = n2 * Dl - n1 * Din
                cr = np.cross(v.T, nh.T).T
                err = np.sqrt(np.sum(cr * cr, axis=0))
                bad = ~(err <= 1e-9 * max(n1, n2) * tol_scale + 4 * max(n1, n2) * abs(shape.c) * terr)
                out.expect('snell_law' + tag, not np.any(bad), surface=k, err=err[bad][:3], rays=g[bad][:3],
                           n1=n1, n2=n2, shape=shape.typ)
                out.expect('refraction_half_space' + tag, np.all(cos_i * cos_o >= -1e-12), surface=k,
                           cos_i=cos_i[:3], cos_o=cos_o[:3])
            # (5) optical path
            dopd = opd[g] - opd_prev[g]
            want = n1 * seglen
            bad = ~(np.abs(dopd - want) <= 1e-10 * (np.abs(want) + Ltot) * tol_scale + 2 * n1 * terr +
                    (0 if shape.closed_form else 20 * n1 * float(sdict.get('tol') or 1e-6)))
            out.expect('optical_path' + tag, not np.any(bad), surface=k, got=dopd[bad][:3], want=want[bad][:3],
                       rays=g[bad][:3])
            aoi = np.degrees(np.arccos(np.clip(np.abs(cos_i), 0, 1)))
            stats['max_aoi'] = max(stats['max_aoi'], float(np.max(aoi)))
            if (shape.c != 0 or shape.typ != 'standard') and (is_mirror or n1 != n2):
                if np.any(aoi > 5) and stats['skew']:
                    stats['powered_hits'] += 1
        # (6) non-finite discipline (closed-form shapes): compare with the reference existence of the intersection
        if check_nonfinite and shape.closed_form and np.any(alive):
            a = np.where(alive)[0]
            ta, tb = shape.intersect_conic(Pl_prev[:, a], Dl_in[:, a])
            eps = 1e-7 * Ltot
            exists_any = np.zeros(len(a), dtype=bool)
            some_good = np.zeros(len(a), dtype=bool)       # a clear root on the sheet that clearly refracts
            some_doubt = np.zeros(len(a), dtype=bool)      # a possible root that is not clearly good
            for t in (ta, tb):
                with np.errstate(all='ignore'):
                    ok = np.isfinite(t) & (t > -eps)
                    clear = np.isfinite(t) & (t > eps)
                    Pt = Pl_prev[:, a] + t * Dl_in[:, a]
                    margin = (1 - (1 + shape.k) * shape.c * Pt[2]) if shape.c != 0 else np.ones(len(a))
                    possible = ok & (margin > -1e-6)
                    hit = clear & (margin > 1e-6)
                    nh = shape.normal(Pt[0], Pt[1])
                    ci = np.abs(np.sum(Dl_in[:, a] * nh, axis=0))
                    if is_mirror:
                        can = hit
                    else:
                        s2 = (n1 / n2) ** 2 * (1 - ci ** 2)
                        can = hit & (s2 < 1 - 1e-9)
                exists_any |= ok
                some_good |= can
                some_doubt |= possible & ~can
            # which root the tracer must take is not part of the property: demand a finite ray only when every
            # possible root is clearly fine
            exists_clear = some_good & ~some_doubt
            # the discriminant decides "no intersection at all": require a clear margin too
            with np.errstate(all='ignore'):
                if shape.c != 0:
                    x, y, z = Pl_prev[:, a]
                    L, M, N = Dl_in[:, a]
                    c, kk = shape.c, shape.k
                    A = c * (L * L + M * M + (1 + kk) * N * N)
                    B = 2 * c * (x * L + y * M + (1 + kk) * z * N) - 2 * N
                    C = c * (x * x + y * y + (1 + kk) * z * z) - 2 * z
                    disc = B * B - 4 * A * C
                    none_clear = (disc < -1e-9 * (B * B + np.abs(4 * A * C))) | (~exists_any & np.isfinite(disc) &
                                                                                 (disc > 1e-9 * B * B))
                else:
                    none_clear = ~exists_any & (np.abs(Dl_in[2, a]) > 1e-9)
            ghost = fin[a] & none_clear
            out.expect('no_intersection_is_nonfinite' + tag, not np.any(ghost), surface=k, rays=a[ghost][:5])
            lost = ~fin[a] & exists_clear
            out.expect('existing_intersection_is_finite' + tag, not np.any(lost), surface=k, rays=a[lost][:5],
                       local_start=Pl_prev[:, a][:, lost][:, :1], local_dir=Dl_in[:, a][:, lost][:, :1])
            # TIR bookkeeping
            stats['miss'] += int(np.sum(~fin[a] & none_clear))
            stats['tir'] += int(np.sum(~fin[a] & ~none_clear & exists_any))
        alive = alive & fin
        P_prev, D_prev, opd_prev = P, D, opd
    stats['valid_rays'] = int(np.sum(alive))
    return stats
