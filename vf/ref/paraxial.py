"""ABCD (y, n*u) reference for first-order properties.  Independent of optiland.

System description (`ParaxSys`):
    c[j]   curvature of surface j+1  (j = 0..K, the last one is the image surface, c = 0 for a plane)
    t[j]   signed vertex separation from surface j+1 to surface j+2 (j = 0..K-1)
    n[j]   *unsigned* index of the medium after surface j (n[0] object space, n[j] after surface j, j=1..K+1)
    mirror[j] True if surface j+1 reflects
    t_obj  distance from the object to surface 1 (math.inf for an infinite object)
    stop   1-based index of the stop surface
Signed indices: the sign flips after every mirror.  Slopes u are geometric dy/dz.
"""
import math

import numpy as np


class ParaxSys:
    def __init__(self, c, t, n, mirror, t_obj, stop):
        self.c = [np.float64(x) for x in c]
        self.t = [np.float64(x) for x in t]
        self.n_abs = [np.float64(x) for x in n]
        self.mirror = [bool(m) for m in mirror]
        self.t_obj = np.float64(t_obj)
        self.stop = int(stop)
        self.K1 = len(self.c)          # number of surfaces incl. image surface
        assert len(self.t) == self.K1 - 1
        assert len(self.n_abs) == self.K1 + 1
        s = np.float64(1.0)
        ns = [self.n_abs[0]]
        for j in range(self.K1):
            if self.mirror[j]:
                s = -s
            ns.append(s * self.n_abs[j + 1])
        self.n = ns                    # signed
        self.parity = [1.0]
        p = 1.0
        for j in range(self.K1):
            if self.mirror[j]:
                p = -p
            self.parity.append(p)

    # positions of vertices relative to surface 1
    def z(self):
        z = [0.0]
        for tj in self.t:
            z.append(z[-1] + tj)
        return z

    # -- elementary propagation ------------------------------------------------
    def trace(self, y, u, first=1, last=None, refract_first=True):
        """Trace (y,u) given just before surface `first` (at its vertex plane) through surface `last`.
        Returns lists ys, us: height at and slope after each surface first..last."""
        last = self.K1 if last is None else last
        y, u = np.float64(y), np.float64(u)
        nu = self.n[first - 1] * u
        ys, us = [], []
        for j in range(first, last + 1):
            if j > first:
                y = y + self.t[j - 2] * (nu / self.n[j - 1])
            if j > first or refract_first:
                phi = (self.n[j] - self.n[j - 1]) * self.c[j - 1]
                nu = nu - y * phi
                u_after = nu / self.n[j]
            else:
                u_after = nu / self.n[j - 1]
            ys.append(y)
            us.append(u_after)
        return ys, us

    def matrix(self, first, last):
        """ABCD matrix in (y, n u) from just before surface `first` to just after surface `last`."""
        M = np.eye(2)
        for j in range(first, last + 1):
            if j > first:
                T = np.array([[1.0, self.t[j - 2] / self.n[j - 1]], [0.0, 1.0]])
                M = T @ M
            phi = (self.n[j] - self.n[j - 1]) * self.c[j - 1]
            R = np.array([[1.0, 0.0], [-phi, 1.0]])
            M = R @ M
        return M

    # -- first order properties --------------------------------------------------
    def power(self):
        return -self.matrix(1, self.K1)[1, 0]

    def f2(self):
        """rear focal length n'/phi (signed)"""
        return self.n[self.K1] / self.power()

    def f1(self):
        """front focal length -n0/phi"""
        return -self.n[0] / self.power()

    def F2(self):
        """rear focal point relative to the image surface"""
        ys, us = self.trace(1.0, 0.0)
        return -ys[-1] / us[-1]

    def F1(self):
        """front focal point relative to surface 1"""
        M = self.matrix(1, self.K1)
        return self.n[0] * M[1, 1] / M[1, 0]

    def P1(self):
        return self.F1() - self.f1()

    def P2(self):
        return self.F2() - self.f2()

    def N1(self):
        return self.P1() + self.f1() + self.f2()

    def N2(self):
        return self.P2() + self.f1() + self.f2()

    def EPL(self):
        """entrance pupil position relative to surface 1"""
        s = self.stop
        if s == 1:
            return 0.0
        # matrix from just before surface 1 to the plane of the stop (before its refraction)
        M = self.matrix(1, s - 1)
        T = np.array([[1.0, self.t[s - 2] / self.n[s - 1]], [0.0, 1.0]])
        M = T @ M
        return self.n[0] * M[0, 1] / M[0, 0]

    def XPL(self):
        """exit pupil position relative to the image surface (as seen after the image surface)"""
        s = self.stop
        # from just after the stop surface to just after the image surface
        M = np.eye(2)
        for j in range(s + 1, self.K1 + 1):
            T = np.array([[1.0, self.t[j - 2] / self.n[j - 1]], [0.0, 1.0]])
            phi = (self.n[j] - self.n[j - 1]) * self.c[j - 1]
            R = np.array([[1.0, 0.0], [-phi, 1.0]])
            M = R @ T @ M
        return -M[0, 1] * self.n[self.K1] / M[1, 1]

    def EPD(self, ap_type, value):
        if ap_type == 'EPD':
            return value
        if ap_type == 'imageFNO':
            return abs(self.f2()) / np.float64(value)
        if ap_type == 'objectNA':
            u0 = math.asin(value / self.n_abs[0])
            return 2 * (self.EPL() + self.t_obj) * math.tan(u0)
        raise ValueError(ap_type)

    def marginal(self, ap_type, value):
        """heights at / slopes after surfaces 1..K1"""
        epd = self.EPD(ap_type, value)
        epd = np.float64(epd)
        if math.isinf(self.t_obj):
            y1, u0 = epd / 2, 0.0
        else:
            u0 = epd / (2 * (self.EPL() + self.t_obj))
            y1 = u0 * self.t_obj
        return self.trace(y1, u0)

    def chief_slope_one(self):
        """(y1, u0) of the ray through the stop centre with unit object-space slope"""
        s = self.stop
        if s == 1:
            return np.float64(0.0), np.float64(1.0)
        M = self.matrix(1, s - 1)
        T = np.array([[1.0, self.t[s - 2] / self.n[s - 1]], [0.0, 1.0]])
        M = T @ M
        nu = self.n[0] * 1.0
        y1 = -M[0, 1] * nu / M[0, 0]
        return y1, 1.0

    def chief(self, field_type, max_field, aim=None):
        """aim: another ParaxSys of the same prescription (e.g. at the primary wavelength) whose entrance pupil centre the
        ray is aimed at; by default the ray goes through the centre of this system's own stop"""
        y1, u0 = (aim or self).chief_slope_one()
        if field_type == 'angle':
            s = np.float64(math.tan(math.radians(max_field)))
        else:
            # object point at height +max_field (the real-ray generator's convention for Hy=+1):
            # y1 = y_obj + u0*t_obj with (y1, u0) = k*(y1_unit, 1)  =>  k = y_obj / (y1_unit - t_obj)
            s = np.float64(max_field) / (y1 - self.t_obj)
        return self.trace(y1 * s, u0 * s)

    def invariant(self, ap_type, value, field_type, max_field):
        ya, ua = self.marginal(ap_type, value)
        yb, ub = self.chief(field_type, max_field)
        # at surface 1 (after refraction)
        return self.n[1] * (yb[0] * ua[0] - ya[0] * ub[0])

    def magnification(self, ap_type, value):
        ya, ua = self.marginal(ap_type, value)
        epd = self.EPD(ap_type, value)
        if math.isinf(self.t_obj):
            u0 = 0.0
        else:
            u0 = epd / (2 * (self.EPL() + self.t_obj))
        return self.n[0] * u0 / (self.n[self.K1] * ua[-1])

    def FNO(self, ap_type, value):
        if ap_type == 'imageFNO':
            return value
        return self.f2() / np.float64(self.EPD(ap_type, value))

    def XPD(self, ap_type, value):
        ya, ua = self.marginal(ap_type, value)
        return 2 * (ya[-1] + ua[-1] * self.XPL())
