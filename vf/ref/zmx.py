"""Hand-written Zemax .zmx writer: prescription dict -> text (independent of optiland's reader)."""
import math


def num(v, fmt):
    if fmt == 'g':
        return repr(float(v))
    if fmt == 'E':
        return '%.15E' % float(v)
    if fmt == 'zemax':
        return '%.12f' % float(v) if abs(v) < 1e6 and (v == 0 or abs(v) > 1e-6) else '%.15E' % float(v)
    return repr(float(v))


def write_zmx(p):
    """p: dict(mode, ap=(kind,value), ftype, tele, fields_y, fields_x, wls, prim (1-based), surfs=[...], fmt, gcat)"""
    f = p.get('fmt', 'g')
    L = []
    kind, val = p['ap']
    apline = {'ENPD': 'ENPD %s', 'FNUM': 'FNUM %s 0', 'OBNA': 'OBNA %s 0'}[kind] % num(val, f)
    # the records of the header in the order Zemax writes them ('vers'), or - the text format has no required order and
    # no required VERS/NAME record - starting directly with a record that matters
    head = p.get('head', 'vers')
    if head == 'mode_first':
        L += ['MODE %s' % p.get('mode', 'SEQ'), 'UNIT MM X W X CM MR CPMM', apline]
    elif head == 'ap_first':
        L += [apline, 'MODE %s' % p.get('mode', 'SEQ'), 'NAME generated', 'UNIT MM X W X CM MR CPMM']
    else:
        L += ['VERS 190513 80 123457 L123457', 'MODE %s' % p.get('mode', 'SEQ'), 'NAME generated',
              'UNIT MM X W X CM MR CPMM', apline]
    if p.get('gcat'):
        L.append('GCAT %s' % ' '.join(p['gcat']))
    nf = len(p['fields_y'])
    nw = len(p['wls'])
    L.append('FTYP %d %d %d %d 0 0 0' % (p['ftype'], 1 if p.get('tele') else 0, nf, nw))
    fx = p.get('fields_x') or [0.0] * nf
    pad = 12 - nf
    L.append('XFLN ' + ' '.join([num(v, f) for v in fx] + ['0'] * pad))
    L.append('YFLN ' + ' '.join([num(v, f) for v in p['fields_y']] + ['0'] * pad))
    L.append('FWGN ' + ' '.join(['1'] * 12))
    L.append('VDXN ' + ' '.join(['0'] * 12))
    L.append('PWAV %d' % p['prim'])
    for i in range(24):
        w = p['wls'][i] if i < nw else 0.55
        L.append('WAVM %d %s 1' % (i + 1, num(w, f)))
    for i, s in enumerate(p['surfs']):
        L.append('SURF %d' % i)
        if s.get('stop'):
            L.append('  STOP')
        L.append('  TYPE %s' % s['type'])
        L.append('  CURV %s 0 0 0 0 ""' % num(s['curv'], f))
        L.append('  HIDE 0 0 0 0 0 0 0 0 0 0')
        L.append('  MIRR 2 0')
        if s['type'] == 'EVENASPH':
            for j, c in enumerate(s['parms']):
                L.append('  PARM %d %s' % (j + 1, num(c, f)))
        d = s['disz']
        L.append('  DISZ %s' % ('INFINITY' if d == 'INFINITY' else num(d, f)))
        if s.get('conic'):
            L.append('  CONI %s' % num(s['conic'], f))
        g = s.get('glass')
        if g:
            if g.get('bare'):
                L.append('  GLAS %s' % g['name'])          # the short form: the catalogue name alone
            else:
                L.append('  GLAS %s 1 0 %s %s 0 0 0 0 0 0' % (g['name'], num(g['nd'], f), num(g['vd'], f)))
        L.append('  DIAM %s 0 0 0 1 ""' % num(s.get('diam', 5.0), f))
    L.append('BLNK ')
    L.append('TOL TOFF 0 0 0 0 0 0 0')
    return '\n'.join(L) + '\n'


def encode(text, encoding):
    if encoding == 'utf-16':
        return text.replace('\n', '\r\n').encode('utf-16')      # with BOM, CRLF as Zemax writes it
    return text.encode('utf-8')
