"""Dictionary model of a lens prescription + observation of the library state through public attributes."""
import copy
import math

import numpy as np

from vf.gen import lens as GL

W_PROBE = (0.5, 0.65)


def _f(x):
    return float(np.ravel(np.asarray(x, dtype=float))[0])


def observe(o):
    """Plain-data snapshot of the prescription held by the library."""
    sg = o.surface_group
    S = sg.surfaces
    pos = [float(v) for v in np.ravel(sg.positions)]
    snap = dict(z=pos, R=[float(v) for v in np.ravel(sg.radii)], k=[float(v) for v in np.ravel(sg.conic)],
                dx=[_f(s.geometry.cs.x) for s in S], dy=[_f(s.geometry.cs.y) for s in S],
                rx=[_f(s.geometry.cs.rx) for s in S], ry=[_f(s.geometry.cs.ry) for s in S],
                csz=[_f(s.geometry.cs.z) for s in S],
                stop=[bool(s.is_stop) for s in S], refl=[bool(s.is_reflective) for s in S],
                gtype=[type(s.geometry).__name__ for s in S])
    npost, npre, coef = [], [], []
    for i, s in enumerate(S):
        npost.append([_f(s.material_post.n(w)) for w in W_PROBE])
        npre.append([_f(s.material_pre.n(w)) for w in W_PROBE] if s.material_pre is not None else None)
        c = getattr(s.geometry, 'c', None)
        coef.append(None if c is None else np.asarray(c, dtype=float).tolist())
    snap.update(npost=npost, npre=npre, coef=coef)
    snap['wl'] = [(float(w.value), bool(w.is_primary)) for w in o.wavelengths.wavelengths]
    snap['ap'] = (o.aperture.ap_type, float(o.aperture.value)) if o.aperture else None
    snap['fields'] = [(float(f.x), float(f.y), float(f.vx), float(f.vy)) for f in o.fields.fields]
    snap['ftype'] = o.field_type
    return snap


class Model:
    """Expected prescription, updated with the documented semantics of every edit."""

    def __init__(self, spec):
        K = len(spec['surfs'])
        self.K = K
        self.t = [GL.fl(spec['obj']['t'])] + [float(s['t']) for s in spec['surfs']]    # t[k]: gap after surface k
        self.R = [math.inf] + [GL.fl(s['R']) for s in spec['surfs']] + [math.inf]
        self.k = [0.0] + [float(s['k']) for s in spec['surfs']] + [0.0]
        self.dx = [0.0] + [s['dx'] for s in spec['surfs']] + [0.0]
        self.dy = [0.0] + [s['dy'] for s in spec['surfs']] + [0.0]
        self.rx = [0.0] + [s['rx'] for s in spec['surfs']] + [0.0]
        self.ry = [0.0] + [s['ry'] for s in spec['surfs']] + [0.0]
        self.coef = [None]
        for s in spec['surfs']:
            if s['type'] == 'even_asphere':
                self.coef.append(list(s['coef'] or []))
            elif s['type'] in ('polynomial', 'chebyshev'):
                self.coef.append([list(r) for r in (s['coef'] or [[0.0]])])
            else:
                self.coef.append(None)
        self.coef.append(None)
        self.stype = ['object'] + [s['type'] for s in spec['surfs']] + ['standard']
        self.refl = [False] + [s['mat']['kind'] == 'mirror' for s in spec['surfs']] + [False]
        self.stop = [False] + [bool(s['stop']) for s in spec['surfs']] + [False]
        # media: index after surface k at the probe wavelengths
        self.npost = []
        for w in W_PROBE:
            ns, _ = GL.media(spec, w)
            self.npost.append(ns)
        self.npost = [[self.npost[0][i], self.npost[1][i]] for i in range(K + 2)]
        self.wl = [(w, i == spec['prim']) for i, w in enumerate(spec['wls'])]
        self.pickups = []
        self.solves = []

    def z(self):
        z = [-self.t[0], 0.0]
        for k in range(1, self.K + 1):
            z.append(z[-1] + self.t[k])
        return z

    def thickness(self, k):
        return self.t[k]

    def apply_pickup(self, p):
        src, attr, tgt, scale, offset = p
        if attr == 'radius':
            self.R[tgt] = scale * self.R[src] + offset
        elif attr == 'conic':
            self.k[tgt] = scale * self.k[src] + offset
        elif attr == 'thickness':
            self.t[tgt] = scale * self.t[src] + offset


def compare(out, snap, m, Lsc, step, op):
    """Frame condition: the library state equals the model in every observed quantity."""
    tag = dict(step=step, op=op)
    K = m.K
    ok = True
    ok &= out.expect('surface_count', len(snap['z']) == K + 2, got=len(snap['z']), want=K + 2, **tag)
    if len(snap['z']) != K + 2:
        return False
    zt = 1e-9 * Lsc
    ok &= out.close('vertex_positions', snap['z'][1:], m.z()[1:], atol=zt, rtol=1e-12, **tag)
    ok &= out.close('cs_z_equals_position', snap['csz'][1:], snap['z'][1:], atol=zt, **tag)
    if math.isfinite(m.t[0]):
        ok &= out.close('object_position', snap['z'][0], m.z()[0], atol=zt, rtol=1e-12, **tag)
    else:
        ok &= out.expect('object_position', math.isinf(snap['z'][0]) and snap['z'][0] < 0, got=snap['z'][0], **tag)
    ok &= out.close('radii', snap['R'], m.R, rtol=1e-13, **tag)
    ok &= out.close('conics', snap['k'], m.k, rtol=1e-13, atol=1e-300, **tag)
    for key in ('dx', 'dy', 'rx', 'ry'):
        ok &= out.close('tilt_decentre', snap[key], getattr(m, key), rtol=1e-13, atol=1e-300, which=key, **tag)
    for i in range(K + 2):
        ok &= out.close('media_behind_surface', snap['npost'][i], m.npost[i], rtol=1e-12, surface=i, **tag)
        if i >= 1:
            ok &= out.close('medium_in_front_is_predecessors', snap['npre'][i], m.npost[i - 1], rtol=1e-12,
                            surface=i, **tag)
        mc, lc = m.coef[i], snap['coef'][i]
        if mc is not None:
            a = np.asarray(mc, dtype=float)
            b = np.asarray(lc if lc is not None else [], dtype=float)
            if a.ndim == 2:
                # polynomial arrays may be zero padded by coefficient variables
                r, c = max(a.shape[0], b.shape[0] if b.ndim == 2 else 0), max(a.shape[1], b.shape[1] if b.ndim == 2 else 0)
                A = np.zeros((r, c)); A[:a.shape[0], :a.shape[1]] = a
                B = np.zeros((r, c))
                if b.ndim == 2:
                    B[:b.shape[0], :b.shape[1]] = b
                ok &= out.close('coefficients', B, A, rtol=1e-13, atol=1e-300, surface=i, **tag)
            else:
                ok &= out.expect('coefficients', a.shape == b.shape and np.allclose(a, b, rtol=1e-13, atol=1e-300),
                                 surface=i, got=b, want=a, **tag)
    ok &= out.expect('at_most_one_stop', sum(snap['stop']) <= 1, stops=snap['stop'], **tag)
    ok &= out.expect('stop_unchanged', snap['stop'] == m.stop, got=snap['stop'], want=m.stop, **tag)
    ok &= out.expect('exactly_one_primary', sum(1 for w in snap['wl'] if w[1]) == 1, wl=snap['wl'], **tag)
    ok &= out.expect('wavelengths', len(snap['wl']) == len(m.wl) and all(
        abs(a[0] - b[0]) <= 1e-12 * abs(b[0]) and a[1] == b[1] for a, b in zip(snap['wl'], m.wl)),
        got=snap['wl'], want=m.wl, **tag)
    return bool(ok)
