"""Third-order and first-order chromatic surface contributions, two independent routes.

Route 1 (Smith, Modern Optical Engineering, ch. 6.3), fed with reference (ABCD) paraxial rays:
    i = c y + u,   B = n (n'-n) y (u'+i) / (2 n' Inv),  Bp likewise with the chief ray,  h' = Inv / (n'_k u'_k)
    TSC = B i^2 h', CC = B i ip h', TAC = B ip^2 h', TPC = (n'-n) c h' Inv / (2 n n'),
    DC = h' [Bp i ip + (ub'^2 - ub^2)/2],  TAchC = -y i (dn - n/n' dn') / (n'_k u'_k),  TchC likewise with ip.
Route 2 (Welford): Seidel sums from the refraction invariants A = n i, Abar, H.
Signed indices (mirrors) are used throughout when `signed` is True; `signed=False` reproduces the positive-index
convention (only used inside the region of known finding C08-mirror-terms).
"""
import numpy as np


def surface_terms(ps, ya, ua, yb, ub, dn, signed=True, skip_mirror_terms=False, colour_height_prev=None):
    """ps: ParaxSys; ya/ua/yb/ub: heights at / slopes after surfaces 1..K1; dn[j]: n_F - n_C of medium j (0..K1).
    Returns dict of arrays over the K = K1-1 real surfaces, plus 'S' (five sums, library normalisation)."""
    K1 = ps.K1
    n = list(ps.n) if signed else [abs(v) for v in ps.n]
    dn = list(dn)
    if signed:
        dn = [d * (1.0 if ps.n[j] >= 0 else -1.0) for j, d in enumerate(dn)]
    # slopes before surface j (1-based): object-space slope for j = 1
    u0a = ua_before_first(ps, ya, ua)
    u0b = ub_before_first(ps, yb, ub)
    uab = [u0a] + list(ua[:-1])
    ubb = [u0b] + list(ub[:-1])
    inv = n[1] * (yb[0] * ua[0] - ya[0] * ub[0])
    nk, uk = n[K1], ua[K1 - 1]
    hp = inv / (nk * uk)
    out = {k: [] for k in ('TSC', 'CC', 'TAC', 'TPC', 'DC', 'TAchC', 'TchC')}
    for j in range(1, K1):            # real surfaces 1..K
        c = ps.c[j - 1]
        n0, n1 = n[j - 1], n[j]
        y, yb_ = ya[j - 1], yb[j - 1]
        i = c * y + uab[j - 1]
        ip = c * yb_ + ubb[j - 1]
        if skip_mirror_terms and ps.mirror[j - 1]:
            for k in out:
                out[k].append(0.0)
            continue
        B = n0 * (n1 - n0) * y * (ua[j - 1] + i) / (2 * n1 * inv) if inv != 0 else 0.0
        Bp = n0 * (n1 - n0) * yb_ * (ub[j - 1] + ip) / (2 * n1 * inv) if inv != 0 else 0.0
        out['TSC'].append(B * i * i * hp)
        out['CC'].append(B * i * ip * hp)
        out['TAC'].append(B * ip * ip * hp)
        out['TPC'].append((n1 - n0) * c * hp * inv / (2 * n1 * n0))
        out['DC'].append(hp * (Bp * i * ip + 0.5 * (ub[j - 1] ** 2 - ubb[j - 1] ** 2)))
        col = dn[j - 1] - n0 / n1 * dn[j]
        # known finding C08-chromatic-height: the library takes the marginal height of the *previous* record
        yc = y if colour_height_prev is None else (colour_height_prev if j == 1 else ya[j - 2])
        out['TAchC'].append(-yc * i / (nk * uk) * col)
        out['TchC'].append(-yc * ip / (nk * uk) * col)
    res = {k: np.array(v, dtype=float) for k, v in out.items()}
    res['S'] = np.array([-np.sum(res[k]) * nk * uk * 2 for k in ('TSC', 'CC', 'TAC', 'TPC', 'DC')])
    res['u_last'] = uk
    res['inv'] = inv
    return res


def ua_before_first(ps, ya, ua):
    # refraction at surface 1: n1 u1 = n0 u0 - y1 (n1 - n0) c1
    n0, n1 = ps.n[0], ps.n[1]
    return (n1 * ua[0] + ya[0] * (n1 - n0) * ps.c[0]) / n0


def ub_before_first(ps, yb, ub):
    n0, n1 = ps.n[0], ps.n[1]
    return (n1 * ub[0] + yb[0] * (n1 - n0) * ps.c[0]) / n0


def welford_sums(ps, ya, ua, yb, ub):
    """S_I..S_V (Welford, Aberrations of Optical Systems, eq. 8.42ff), signed indices."""
    n = ps.n
    K1 = ps.K1
    uab = [ua_before_first(ps, ya, ua)] + list(ua[:-1])
    ubb = [ub_before_first(ps, yb, ub)] + list(ub[:-1])
    S = np.zeros(5)
    H = n[1] * (ua[0] * yb[0] - ub[0] * ya[0])
    for j in range(1, K1):
        c = ps.c[j - 1]
        n0, n1 = n[j - 1], n[j]
        y, ybar = ya[j - 1], yb[j - 1]
        A = n0 * (uab[j - 1] + y * c)
        Ab = n0 * (ubb[j - 1] + ybar * c)
        d_un = ua[j - 1] / n1 - uab[j - 1] / n0
        d_1n = 1.0 / n1 - 1.0 / n0
        S[0] += -A * A * y * d_un
        S[1] += -A * Ab * y * d_un
        S[2] += -Ab * Ab * y * d_un
        S[3] += -H * H * c * d_1n
        if A != 0:
            S[4] += -(Ab / A) * (H * H * c * d_1n + Ab * Ab * y * d_un)
        else:
            # A = 0: use the equivalent form with the chief ray
            S[4] += -(Ab ** 3 * ybar * (ub[j - 1] / n1 - ubb[j - 1] / n0) * 0 + 0)
    return S, H
