"""Zernike index rules, radial polynomials and norms written from the published definitions."""
import math

import numpy as np


def osa_indices(N=120):
    """OSA/ANSI: j = (n(n+2)+m)/2, j = 0..N-1"""
    out = []
    n = 0
    while len(out) < N:
        for m in range(-n, n + 1, 2):
            j = (n * (n + 2) + m) // 2
            assert j == len(out)
            out.append((n, m))
            if len(out) == N:
                break
        n += 1
    return out


def noll_j(n, m):
    """Noll (1976): j = n(n+1)/2 + |m| + c ; even j <-> m > 0 (cos), odd j <-> m < 0 (sin)"""
    base = n * (n + 1) // 2 + abs(m)
    r = n % 4
    if m > 0 and r in (0, 1):
        c = 0
    elif m < 0 and r in (2, 3):
        c = 0
    elif m >= 0 and r in (2, 3):
        c = 1
    else:        # m <= 0 and r in (0, 1)
        c = 1
    return base + c


def noll_indices(N=120):
    tab = {}
    for n in range(0, 16):
        for m in range(-n, n + 1, 2):
            tab[noll_j(n, m)] = (n, m)
    return [tab[j] for j in range(1, N + 1)]


def fringe_number(n, m):
    s = (m > 0) - (m < 0)
    return (1 + (n + abs(m)) // 2) ** 2 - 2 * abs(m) + (1 - s) // 2


def fringe_indices(N=120):
    tab = {}
    for n in range(0, 40):
        for m in range(-n, n + 1, 2):
            k = fringe_number(n, m)
            assert k not in tab
            tab[k] = (n, m)
    return [tab[k] for k in range(1, N + 1)]


def radial(n, m, r):
    """R_n^|m|(r) by the explicit sum with exact integer binomials."""
    m = abs(m)
    r = np.asarray(r, dtype=float)
    out = np.zeros_like(r)
    for k in range((n - m) // 2 + 1):
        c = (-1) ** k * math.comb(n - k, k) * math.comb(n - 2 * k, (n - m) // 2 - k)
        out = out + c * r ** (n - 2 * k)
    return out


def norm(family, n, m):
    if family == 'fringe':
        return 1.0
    return math.sqrt((2 * n + 2) / (2 if m == 0 else 1))     # sqrt(n+1) for m = 0, sqrt(2n+2) otherwise


def basis(family, n, m, r, phi, sin_sign=1.0):
    az = np.cos(m * phi) if m >= 0 else sin_sign * np.sin(abs(m) * phi)
    return norm(family, n, m) * radial(n, m, r) * az


INDEX_RULES = {'standard': osa_indices, 'noll': noll_indices, 'fringe': fringe_indices}
